#!/usr/bin/env python3
"""
Differential check for refactorings of

    modules/pel/hwdiags/parserdata.py
    modules/udparsers/oe500/oe500.py
    modules/srcparsers/**
    modules/calloutparsers/**

Usage:  diffcheck.py <pristine_root> <patched_root>

Both trees are exercised in separate subprocesses (PYTHONPATH=<root>/modules),
once with plain `python` and once with `python -O`:

  * an API driver calls the public functions of the touched modules with many
    well-formed, truncated, corrupted, random and ill-typed inputs, under a
    number of different chip-data profiles (the JSON files normally shipped in
    pel/hwdiags/data), and prints one line per case;
  * the peltool CLI is run on generated binary PELs (SRC with callouts, user
    data / extended user data sections of component 0xE500) with several
    option combinations, with and without chip-data files.

stdout, stderr (root path normalised), exit status and created/removed files
are compared.  Exit 0 and print "IDENTICAL (<n> cases)" if everything is the
same, exit 1 otherwise.
"""
import json
import os
import random
import shutil
import struct
import subprocess
import sys
import tempfile

PY = sys.executable
HERE = os.path.dirname(os.path.abspath(__file__))

# --------------------------------------------------------------------------
# chip data profiles
# --------------------------------------------------------------------------

GOOD_CHIP_A = {
    "model_ec": {"id": "20da0020", "type": "proc", "desc": "P10 2.0"},
    "attn_types": {"1": "CHIP_CS", "2": "UNIT_CS", "3": "RECOVERABLE",
                   "4": "SP_ATTN", "5": "HOST_ATTN"},
    "registers": {
        "abcdef": ["A_VERY_LONG_REGISTER_NAME_THAT_IS_CROPPED",
                   {"0": "0x00001234", "1": "DEADBEEF", "255": "-ff"}],
        "000001": ["SHORT", {"0": "10"}],
        "00c0de": ["EXACTLY_25_CHARACTERS_NAM", {"7": "0X8000000000000001"}],
        "0000aa": ["NOADDR", {}],
    },
    "signatures": {
        "1234": ["SIG_ONE", {"0": "bit zero", "7": "bit seven",
                             "255": "last bit"}],
        "abcd": ["SIG_\u00e9", {"1": "non ascii \u00fc description"}],
        "0000": ["EMPTY", {}],
    },
}

GOOD_CHIP_B = {
    "model_ec": {"id": "60d20020", "type": "ocmb", "desc": "Explorer 2.0"},
    "attn_types": {"1": "CHIP_CS", "3": "RECOVERABLE"},
    "registers": {"abcdef": ["OCMB_REG", {"0": "08010870"}]},
    "signatures": {"1234": ["OCMB_SIG", {"0": "ocmb bit 0"}]},
}

QUIRKY = {
    # no "type" / no "desc"
    "model_ec": {"id": "11111111"},
    # list instead of dict -> TypeError (not caught)
    "attn_types": ["a", "b"],
    "registers": {
        "aaaaaa": [["list", "name"], {"0": "10"}],     # name is a list
        "bbbbbb": [None, {"0": "zz"}],                # bad hex -> ValueError
        "cccccc": [12, {"0": 5}],                     # int addr -> TypeError
        "dddddd": {"0": "name in dict"},              # [0] -> KeyError
        "eeeeee": ["ONLYNAME"],                       # [1] -> IndexError
        "ffffff": "str",                              # 's', 't'['0'] TypeError
        "000000": ["NEG", {"0": "-1", "1": " 1f ", "2": "1_0", "3": None}],
    },
    "signatures": {
        "aaaa": {"0": "x"},                           # [0] -> KeyError
        "bbbb": ["ONLYNAME"],                         # [1] -> IndexError
        "cccc": "str",                                # TypeError
        "dddd": [None, {"0": None, "1": 17, "2": ["l"], "3": {"k": 1}}],
        "eeee": [{"n": 1}, {"0": "dict name"}],
        "ffff": [1.5, ["list", "not", "dict"]],       # list['0'] TypeError
    },
}

QUIRKY2 = {
    "model_ec": {"id": "22222222", "type": {"t": 1}, "desc": None},
    "attn_types": {"1": None, "2": 2, "3": ["l"], "68": "SIXTYEIGHT"},
    # "registers" and "signatures" missing
}

QUIRKY3 = {
    "model_ec": {"id": "33333333", "type": 7, "desc": ["d", 1]},
    "attn_types": "string",      # 'string'['1'] -> TypeError
    "registers": [],             # list['abcdef'] -> TypeError
    "signatures": None,          # None['1234'] -> TypeError
}

UPPER_ID = {
    # hex keys are supposed to be lowercase - this one never matches
    "model_ec": {"id": "ABCDEF01", "type": "upper", "desc": "Upper"},
    "attn_types": {}, "registers": {}, "signatures": {},
}


def profiles():
    """name -> {filename: bytes}"""
    def js(o):
        return json.dumps(o).encode()
    return {
        "empty": {},
        "good": {"a.json": js(GOOD_CHIP_A), "b.json": js(GOOD_CHIP_B),
                 "ignored.txt": b"not json"},
        "quirky": {"q1.json": js(QUIRKY), "q2.json": js(QUIRKY2),
                   "q3.json": js(QUIRKY3), "u.json": js(UPPER_ID),
                   "a.json": js(GOOD_CHIP_A)},
        "dup": {"a.json": js(GOOD_CHIP_A), "a2.json": js(GOOD_CHIP_A)},
        "bad_nokey": {"x.json": js({"attn_types": {}})},
        "bad_noid": {"x.json": js({"model_ec": {"type": "t"}})},
        "bad_json": {"x.json": b"{ not json"},
        "bad_list": {"x.json": js([1, 2, 3])},
        "bad_utf8": {"x.json": b'{"model_ec": {"id": "\xff\xfe"}}'},
        "bad_unhashable": {"x.json": js({"model_ec": {"id": ["l"]}})},
    }


def write_profile(dirname, files):
    os.makedirs(dirname, exist_ok=True)
    for name, content in files.items():
        with open(os.path.join(dirname, name), "wb") as fp:
            fp.write(content)
    # make it look like the package directory
    with open(os.path.join(dirname, "__init__.py"), "wb"):
        pass


# --------------------------------------------------------------------------
# user data blobs
# --------------------------------------------------------------------------

def be(n, size):
    return n.to_bytes(size, "big")


def sig_words(model_ec, chip_pos, node_pos, attn, sig_id, inst, bit):
    return (bytes.fromhex(model_ec) + be(chip_pos, 2) + be(node_pos, 1) +
            be(attn, 1) + bytes.fromhex(sig_id) + be(inst, 1) + be(bit, 1))


def build_sig_list(sigs, count=None):
    out = be(len(sigs) if count is None else count, 4)
    for s in sigs:
        out += sig_words(*s)
    return out


def build_reg_dump(chips, count=None):
    out = be(len(chips) if count is None else count, 4)
    for model_ec, chip_pos, node_pos, regs, nregs in chips:
        out += bytes.fromhex(model_ec) + be(chip_pos, 2) + be(node_pos, 1)
        out += be(len(regs) if nregs is None else nregs, 4)
        for reg_id, inst, data in regs:
            out += bytes.fromhex(reg_id) + be(inst, 1) + be(len(data), 1)
            out += data
    return out


def ud_blobs(rng):
    """list of (subtype, version, bytes)"""
    blobs = []

    # ---- signature lists -------------------------------------------------
    sigs = [
        ("20da0020", 1, 0, 1, "1234", 0, 0),
        ("20da0020", 0xffff, 0xff, 3, "1234", 0xff, 7),
        ("20da0020", 2, 1, 9, "abcd", 3, 1),
        ("20da0020", 2, 1, 5, "0000", 3, 1),
        ("60d20020", 0x10, 2, 3, "1234", 1, 0),
        ("60d20020", 0x10, 2, 2, "9999", 1, 200),
        ("23abcdef", 0x2222, 0x33, 0x44, "5555", 0x66, 0x77),
        ("11111111", 1, 1, 1, "aaaa", 1, 0),
        ("11111111", 1, 1, 1, "dddd", 1, 0),
        ("22222222", 1, 1, 1, "1234", 1, 0),
        ("22222222", 1, 1, 68, "1234", 1, 0),
        ("abcdef01", 1, 1, 1, "1234", 1, 0),
    ]
    blobs.append((1, 1, build_sig_list([])))
    blobs.append((1, 1, build_sig_list(sigs[:1])))
    blobs.append((1, 2, build_sig_list(sigs[:7])))
    blobs.append((1, 1, build_sig_list(sigs)))
    for s in sigs:
        blobs.append((1, 1, build_sig_list([s])))
    for ec in ("11111111", "22222222", "33333333"):
        for sid in ("aaaa", "bbbb", "cccc", "dddd", "eeee", "ffff", "1234"):
            for bit in (0, 1, 2, 3):
                blobs.append((1, 1, build_sig_list(
                    [(ec, 1, 2, bit + 1, sid, 4, bit)])))
    blobs.append((1, 1, build_sig_list(sigs[:3], count=2)))      # extra data
    blobs.append((1, 1, build_sig_list(sigs[:3], count=4)))      # too short
    blobs.append((1, 1, build_sig_list(sigs[:1], count=0xffffffff)))
    blobs.append((1, 1, build_sig_list(sigs[:3]) + b"\0" * 5))
    full = build_sig_list(sigs[:3])
    for cut in range(len(full)):
        blobs.append((1, 1, full[:cut]))

    # ---- register dumps --------------------------------------------------
    regs_a = [
        ("abcdef", 0, bytes.fromhex("0123456789abcdef")),
        ("abcdef", 1, bytes.fromhex("00")),
        ("abcdef", 255, bytes.fromhex("112233")),
        ("abcdef", 2, bytes.fromhex("11223344556677")),
        ("000001", 0, bytes(range(20))),
        ("00c0de", 7, b"\xff" * 8),
        ("0000aa", 0, b"\x01\x02"),
        ("123456", 9, b"\xaa\xbb\xcc\xdd"),
    ]
    regs_q = [
        ("000000", 0, b"\x01"), ("000000", 1, b"\x01"),
        ("000000", 2, b"\x01"), ("000000", 3, b"\x01"),
    ]
    chips = [
        ("20da0020", 0, 0, regs_a, None),
        ("60d20020", 0x100, 1, regs_a[:2], None),
        ("23abcdef", 0xffff, 0xff, regs_a[:3], None),
        ("20da0020", 5, 5, [], None),
    ]
    blobs.append((2, 1, build_reg_dump([])))
    blobs.append((2, 1, build_reg_dump(chips)))
    blobs.append((2, 3, build_reg_dump(chips[:1])))
    blobs.append((2, 1, build_reg_dump(chips[3:])))
    blobs.append((2, 1, build_reg_dump(chips, count=2)))
    blobs.append((2, 1, build_reg_dump(chips, count=9)))
    blobs.append((2, 1, build_reg_dump(chips[:1], count=0xffffffff)))
    blobs.append((2, 1, build_reg_dump(
        [("20da0020", 1, 1, regs_a[:2], 7)])))                    # nregs big
    blobs.append((2, 1, build_reg_dump(
        [("20da0020", 1, 1, regs_a[:4], 2)])))                    # nregs small
    blobs.append((2, 1, build_reg_dump(
        [("20da0020", 1, 1, [("abcdef", 0, b"")], None)])))       # size 0
    blobs.append((2, 1, build_reg_dump(
        [("20da0020", 1, 1, [("abcdef", 0, b"\x11" * 255)], None)])))
    blobs.append((2, 1, build_reg_dump(
        [("11111111", 1, 1, regs_q, None)])))
    for rid in ("aaaaaa", "bbbbbb", "cccccc", "dddddd", "eeeeee", "ffffff",
                "000000", "abcdef"):
        for ec in ("11111111", "22222222", "33333333"):
            blobs.append((2, 1, build_reg_dump(
                [(ec, 1, 1, [(rid, 0, b"\x12\x34")], None)])))
    full = build_reg_dump(chips[:2])
    for cut in range(len(full)):
        blobs.append((2, 1, full[:cut]))
    for _ in range(60):
        b = bytearray(full)
        for _ in range(rng.randint(1, 3)):
            b[rng.randrange(len(b))] = rng.randrange(256)
        blobs.append((2, 1, bytes(b)))
    full = build_sig_list(sigs[:4])
    for _ in range(40):
        b = bytearray(full)
        for _ in range(rng.randint(1, 3)):
            b[rng.randrange(len(b))] = rng.randrange(256)
        blobs.append((1, 1, bytes(b)))

    # ---- callout FFDC ----------------------------------------------------
    ffdc = [
        b'[{"Callout Type": "Hardware Callout", "Priority": "high"}]\0',
        b'[]', b'{}', b'null\0\0\0', b'"str"', b'12', b'', b'\0', b'\0\0\0\0',
        b'{"a": {"b": [1, 2.5, true, null, "\\u00e9"]}}\0',
        '{"k": "\u00fc\u00e9"}'.encode() + b'\0',
        b'{"dup": 1, "dup": 2}', b'{"z": 1, "a": 2}\0',
        b'[1, 2', b'not json', b'{"a": 1}\0garbage', b'\xff\xfe\0',
        b'  [1]  \0', b'\0[1]', b'NaN', b'[Infinity, -Infinity]', b'1e999',
        b'{"a": 1}\0 \0',
    ]
    for f in ffdc:
        blobs.append((3, 1, f))

    # ---- scratch regs / scratch sig ---------------------------------------
    scratch = bytes(range(0x10, 0x10 + 24))
    for cut in range(len(scratch) + 1):
        blobs.append((4, 1, scratch[:cut]))
    blobs.append((4, 1, scratch + b"\xaa\xbb"))
    blobs.append((4, 1, b"\0" * 24))
    blobs.append((4, 1, b"\xff" * 24))
    blobs.append((4, 1, b"\xAB\xCD\xEF\x01" * 6))
    sig = bytes.fromhex("20da0020deadbeef")
    for cut in range(len(sig) + 1):
        blobs.append((5, 1, sig[:cut]))
    blobs.append((5, 2, sig + b"\x01"))
    blobs.append((5, 1, b"\xAB\xCD\xEF\x01" * 2))

    # ---- unsupported sub types and random data -----------------------------
    for st in (0, 6, 7, 100, 255, -1, 256):
        blobs.append((st, 1, b"\x01\x02\x03\x04"))
        blobs.append((st, 1, b""))
    for _ in range(150):
        st = rng.choice([1, 1, 2, 2, 2, 3, 4, 5])
        n = rng.choice([0, 1, 3, 4, 5, 8, 11, 12, 16, 23, 24, 25, 40, 64])
        data = bytes(rng.randrange(256) for _ in range(n))
        if rng.random() < 0.5 and n >= 4:
            data = be(rng.randrange(4), 4) + data[4:]
        blobs.append((st, rng.randrange(4), data))
    return blobs


# --------------------------------------------------------------------------
# binary PELs for the CLI
# --------------------------------------------------------------------------

def section_header(sid, length, ver, subtype, comp):
    return sid + be(length, 2) + be(ver, 1) + be(subtype, 1) + be(comp, 2)


def bcd_time():
    return bytes.fromhex("2024031512304500")


def build_pel(eid, creator, sections, severity=0x40, action=0xa800,
              obmc=None):
    ph = section_header(b"PH", 48, 1, 0, 0x1000)
    ph += bcd_time() + bcd_time() + creator + b"\0\0"
    ph += be(2 + len(sections), 1)
    ph += be(eid & 0xffff if obmc is None else obmc, 4)
    ph += be(0x0102030405060708, 8) + be(eid, 4) + be(eid, 4)
    uh = section_header(b"UH", 24, 1, 0, 0x1000)
    uh += be(0x10, 1) + be(3, 1) + be(severity, 1) + be(0, 1) + be(0, 4)
    uh += be(0, 1) + be(0, 1) + be(action, 2) + be(0, 4)
    return ph + uh + b"".join(sections)


def build_fru(flags, pn=b"", ccin=b"", sn=b""):
    body = b""
    if flags & 0x0a:
        body += pn.ljust(8, b"\0")[:8]
    if flags & 0x04:
        body += ccin.ljust(4, b"\0")[:4]
    if flags & 0x01:
        body += sn.ljust(12, b"\0")[:12]
    return b"ID" + be(4 + len(body), 1) + be(flags, 1) + body


def build_callout(priority, loc, fru):
    loc = loc + b"\0" * (-len(loc) % 4)
    size = 4 + len(loc) + len(fru)
    return be(size, 1) + be(0, 1) + priority + be(len(loc), 1) + loc + fru


def build_callouts(callouts):
    body = b"".join(callouts)
    return b"\xc0\x00" + be((4 + len(body)) // 4, 2) + body


def build_src(refcode, words, callouts=None, word_count=9, sid=b"PS",
              comp=0xe500):
    flags = 0x01 if callouts is not None else 0
    body = be(2, 1) + be(flags, 1) + be(0, 1) + be(word_count, 1) + be(0, 2)
    co = build_callouts(callouts) if callouts is not None else b""
    body += be(72 + len(co), 2)
    assert len(words) == 8
    for w in words:
        body += be(w, 4)
    body += refcode.ljust(32).encode()[:32]
    body += co
    return section_header(sid, 8 + len(body), 1, 1, comp) + body


def build_ud(subtype, version, data, comp=0xe500):
    return section_header(b"UD", 8 + len(data), version, subtype, comp) + data


def build_ed(subtype, version, data, creator=b"O", comp=0xe500):
    return (section_header(b"ED", 12 + len(data), version, subtype, comp) +
            creator + b"\0\0\0" + data)


def make_pels(rng, blobs):
    """list of (filename, bytes)"""
    pels = []
    w = lambda a, b, c: [0x00000055, 0x00050000, 0, 0x02000000,   # noqa: E731
                         a, b, c, 0x12345678]
    sig_good = w(0x20da0020, 0x00010001, 0x12340007)
    sig_b = w(0x60d20020, 0x00100203, 0x12340100)
    sig_unknown = w(0x23abcdef, 0x22223344, 0x55556677)
    sig_q = w(0x11111111, 0x00010101, 0xdddd0100)
    sig_q2 = w(0x22222222, 0x00010144, 0x12340100)
    sig_q3 = w(0x33333333, 0x00010101, 0x12340100)

    procs = [b"BMC0001", b"BMC0002", b"BMC0003", b"BMC0004", b"BMC0005",
             b"BMC0006", b"BMC0007", b"BMC0008", b"BMC0009", b"bmc0001",
             b"", b"BMC00010"]
    callouts_all = [build_callout(b"H", b"U78DA.ND0.1234567-P0",
                                  build_fru(0x02 | 0x10, pn=p))
                    for p in procs]
    callouts_all.append(build_callout(
        b"M", b"Ufcs-P1-C2", build_fru(0x08 | 0x04 | 0x01 | 0x20,
                                       pn=b"01AB234", ccin=b"2E2D",
                                       sn=b"YL10UF123456")))
    callouts_all.append(build_callout(b"L", b"", build_fru(0x30)))

    eid = 0x50000001

    def add(name, creator, sections, **kw):
        nonlocal eid
        pels.append(("%s_%08X.pel" % (name, eid),
                     build_pel(eid, creator, sections, **kw)))
        eid += 1

    good_uds = [b for b in blobs if b[0] in (1, 2, 3, 4, 5)]

    # checkstop / secondary analysis SRCs with callouts and all UD kinds
    add("cs", b"O", [
        build_src("BD8DE510", sig_good, callouts_all),
        build_ud(1, 1, build_sig_list(
            [("20da0020", 1, 0, 1, "1234", 0, 0),
             ("60d20020", 2, 1, 3, "1234", 1, 0),
             ("23abcdef", 3, 2, 5, "9999", 2, 9)])),
        build_ud(2, 1, build_reg_dump(
            [("20da0020", 0, 0,
              [("abcdef", 0, bytes.fromhex("0123456789abcdef")),
               ("000001", 0, bytes(range(12))),
               ("123456", 3, b"\x01\x02\x03")], None),
             ("23abcdef", 1, 1, [("abcdef", 1, b"\xff")], None)])),
        build_ud(3, 1, b'[{"Callout Type": "Hardware Callout", '
                       b'"Priority": "high", "LocationCode": "P0"}]\0\0\0'),
        build_ud(4, 1, bytes(range(0x20, 0x20 + 24))),
        build_ud(5, 1, bytes.fromhex("20da0020deadbeef")),
        build_ud(6, 1, b"\x01\x02\x03\x04"),
        build_ed(1, 1, build_sig_list([("20da0020", 1, 0, 1, "abcd", 0, 1)])),
    ])
    add("sec", b"O", [build_src("BD8DE5FF", sig_b, callouts_all[:3])])
    add("unk", b"O", [build_src("BD8DE500", sig_unknown, [])])
    add("q1", b"O", [build_src("BD8DE510", sig_q)])
    add("q2", b"O", [build_src("BD8DE510", sig_q2)])
    add("q3", b"O", [build_src("BD8DE510", sig_q3)])
    add("short", b"O", [build_src("BD8DE510", sig_good, word_count=5)])
    add("wc0", b"O", [build_src("BD8DE510", sig_good, word_count=0)])
    add("nocomp", b"O", [build_src("BD8D2000", sig_good, callouts_all[:2])])
    add("lower", b"O", [build_src("bd8de510", sig_good)])
    add("hbti", b"O", [build_src("BC8A1234", sig_good, callouts_all[:2])])
    add("pwr", b"O", [build_src("110015F0", sig_good, callouts_all[:1])])
    add("tiny", b"O", [build_src("BD8D", sig_good)])
    add("hb", b"B", [build_src("BC8A1234", sig_good, callouts_all[:2]),
                     build_ud(1, 1, build_sig_list([]))])
    add("two", b"O", [build_src("BD8DE510", sig_good),
                      build_src("BD8DE511", sig_b, sid=b"SS")])
    add("info", b"O", [build_src("BD8DE510", sig_good)], severity=0x00,
        action=0x0000)
    add("hidden", b"O", [build_src("BD8DE510", sig_b)], severity=0x20,
        action=0x6000)

    # a bunch of PELs carrying user data blobs (several per PEL)
    chunk = []
    picks = good_uds[:]
    rng.shuffle(picks)
    picks = picks[:220]
    for i, (st, ver, data) in enumerate(picks):
        if not data:
            continue
        if i % 5 == 4:
            chunk.append(build_ed(st, ver, data))
        else:
            chunk.append(build_ud(st, ver, data))
        if len(chunk) == 6:
            add("ud", b"O", [build_src("BD8DE510", sig_good)] + chunk)
            chunk = []
    if chunk:
        add("ud", b"O", [build_src("BD8DE510", sig_good)] + chunk)

    # truncated / corrupted complete PELs
    base = pels[0][1]
    for cut in (10, 60, 100, 150, 200, 300, len(base) - 30, len(base) - 1):
        pels.append(("trunc_%04d.pel" % cut, base[:cut]))
    for i in range(25):
        b = bytearray(base)
        for _ in range(rng.randint(1, 4)):
            b[rng.randrange(72, len(b))] = rng.randrange(256)
        pels.append(("corrupt_%02d.pel" % i, bytes(b)))
    return pels


# --------------------------------------------------------------------------
# the API driver (runs inside the tree under test)
# --------------------------------------------------------------------------

DRIVER = r'''
import importlib, json, os, sys, types

work = sys.argv[1]
with open(os.path.join(work, "cases.json")) as fp:
    CASES = json.load(fp)

import pel.hwdiags.data as DATA

N = 0
def emit(tag, fn, *args):
    global N
    N += 1
    try:
        res = fn(*args)
        if isinstance(res, (types.GeneratorType, map, filter, zip)):
            res = ("<iter>", list(res))
        out = "OK " + type(res).__name__ + " " + repr(res)
    except BaseException as e:
        out = "EXC " + type(e).__name__ + ": " + str(e)
    print("%s | %s" % (tag, out))


def arg(a):
    """decode a JSON-encoded argument"""
    if isinstance(a, dict):
        k = a["t"]
        if k == "bytes":
            return bytes.fromhex(a["v"])
        if k == "bytearray":
            return bytearray.fromhex(a["v"])
        if k == "mv":
            return memoryview(bytes.fromhex(a["v"]))
        if k == "mvH":
            return memoryview(bytes.fromhex(a["v"])).cast("H")
        if k == "float":
            return float(a["v"])
        if k == "tuple":
            return tuple(a["v"])
        if k == "big":
            return int(a["v"])
        if k == "strsub":
            class S(str):
                def __format__(self, spec):
                    return "FMT"
                def __str__(self):
                    return "STR"
            return S(a["v"])
        if k == "intsub":
            class I(int):
                def __str__(self):
                    return "ISTR"
                __repr__ = __str__
                def __format__(self, spec):
                    return "IFMT"
            return I(a["v"])
        raise ValueError(k)
    return a


# ---------------------------------------------------------------- ParserData
from pel.hwdiags.parserdata import ParserData
import udparsers.oe500.oe500 as UD
import srcparsers.oe500.oe500 as SRCE5

for prof in CASES["profiles"]:
    DATA.__file__ = os.path.join(work, "profiles", prof, "__init__.py")
    holder = []
    emit("pd[%s] init" % prof, lambda: holder.append(ParserData()) or "made")
    if holder:
        pd = holder[0]
        for i, (meth, args) in enumerate(CASES["pd_calls"]):
            args = [arg(a) for a in args]
            emit("pd[%s] %d %s%r" % (prof, i, meth, tuple(args)),
                 getattr(pd, meth), *args)
        # the same object is reusable and construction is repeatable
        emit("pd[%s] again" % prof,
             lambda: (ParserData().query_model_ec("20DA0020"),
                      pd.query_model_ec("20da0020")))

    if prof in CASES["ud_profiles"]:
        for i, (st, ver, data) in enumerate(CASES["ud_calls"]):
            emit("ud[%s] %d st=%r" % (prof, i, st),
                 UD.parseUDToJson, arg(st), arg(ver), arg(data))
    else:
        for i, (st, ver, data) in enumerate(CASES["ud_calls"][:12] +
                                            CASES["ud_calls"][-80:]):
            emit("ud[%s] %d st=%r" % (prof, i, st),
                 UD.parseUDToJson, arg(st), arg(ver), arg(data))

    for i, args in enumerate(CASES["srce5_calls"]):
        emit("srce5[%s] %d" % (prof, i), SRCE5.parseSRCToJson,
             *[arg(a) for a in args])

# keyword arguments of the public entry points
DATA.__file__ = os.path.join(work, "profiles", "good", "__init__.py")
emit("kw ud", lambda: UD.parseUDToJson(subtype=5, version=1,
                                      data=memoryview(b"\x01" * 8)))
emit("kw ud bad", lambda: UD.parseUDToJson(5, 1))
emit("kw srce5", lambda: SRCE5.parseSRCToJson(
    refcode="BD8DE510", word2="0", word3="0", word4="0", word5="0",
    word6="20DA0020", word7="00010001", word8="12340007", word9="0"))
pd = ParserData()
emit("kw pd 1", lambda: pd.query_model_ec(model_ec="20da0020"))
emit("kw pd 2", lambda: pd.get_attn_desc(model_ec="20da0020", attn_type=1))
emit("kw pd 3", lambda: pd.get_chip_desc(model_ec="20da0020", node_pos=1,
                                         chip_pos=2))
emit("kw pd 4", lambda: pd.get_sig_desc(model_ec="20da0020", sig_id="1234",
                                        sig_inst=1, sig_bit=7))
emit("kw pd 5", lambda: pd.get_signature(word_a="20da0020",
                                         word_b="00010001",
                                         word_c="12340007"))
emit("kw pd 6", lambda: pd.get_reg_data(model_ec="20da0020", reg_id="abcdef",
                                        reg_inst=1))
emit("type sig", lambda: type(pd.get_signature("20da0020", "00010001",
                                               "12340007")).__name__)
emit("type reg", lambda: type(pd.get_reg_data("20da0020", "abcdef",
                                              1)).__name__)
emit("pd api", lambda: sorted(n for n in dir(ParserData)
                              if not n.startswith("_")))
emit("ud api", lambda: sorted(n for n in dir(UD)
                              if n.startswith("parse")))

# ------------------------------------------------------------------- osrc
import srcparsers
import srcparsers.osrc.osrc as OSRC

def cache_state():
    return sorted((k, None if v is None else getattr(v, "__name__", "?"))
                  for k, v in OSRC.osrcParsers.items())

def osrc_round(tag):
    for i, args in enumerate(CASES["osrc_calls"]):
        emit("osrc[%s] %d %r" % (tag, i, args[0]), OSRC.parseSRCToJson,
             *[arg(a) for a in args])
        emit("osrc[%s] %d cache" % (tag, i), cache_state)

emit("osrc cache initial", cache_state)
osrc_round("first")
osrc_round("second")

# extra component parsers made available afterwards: negative cache entries
# must stick, new ones are picked up.
srcparsers.__path__.append(os.path.join(work, "extra_src"))
importlib.invalidate_caches()
osrc_round("extra")
osrc_round("extra2")

# pre-seeded cache entries
class Fake:
    __name__ = "fake"
    @staticmethod
    def parseSRCToJson(*a):
        raise ModuleNotFoundError("raised by component parser")
class Fake2:
    __name__ = "fake2"
    @staticmethod
    def parseSRCToJson(*a):
        return json.dumps({"args": a})
OSRC.osrcParsers["srcparsers.oe500.oe500"] = None
OSRC.osrcParsers["srcparsers.o2000.o2000"] = Fake
OSRC.osrcParsers["srcparsers.bsrc.bsrc"] = Fake2
osrc_round("seeded")
OSRC.osrcParsers.clear()
osrc_round("cleared")
emit("osrc kw", lambda: OSRC.parseSRCToJson(
    refcode="BD8DE510", word2="0", word3="0", word4="0", word5="0",
    word6="20DA0020", word7="00010001", word8="12340007", word9="0"))
emit("osrc few args", lambda: OSRC.parseSRCToJson("BD8DE510", "0"))

# --------------------------------------------------------------- ocallouts
import calloutparsers.ocallouts.ocallouts as OC
for i, a in enumerate(CASES["oc_calls"]):
    emit("oc %d %r" % (i, a), OC.getMaintProcDesc, arg(a))
emit("oc table", lambda: json.dumps(OC.procedures, sort_keys=True))
OC.procedures["BMC9999"] = ["added ", "later"]
OC.procedures["EMPTY"] = []
OC.procedures["NONE"] = None
OC.procedures["STR"] = ""
OC.procedures[7] = ["int key"]
del OC.procedures["BMC0001"]
for i, a in enumerate(CASES["oc_calls"]):
    emit("oc2 %d %r" % (i, a), OC.getMaintProcDesc, arg(a))
emit("oc kw", lambda: OC.getMaintProcDesc(procedure="BMC0002"))

print("TOTAL %d" % N)
'''


EXTRA_SRC = {
    # a well behaved component parser
    "oab00": "import json\n"
             "def parseSRCToJson(refcode, *words):\n"
             "    return json.dumps({'AB': refcode.strip(), 'w': words})\n",
    # raises ImportError (not ModuleNotFoundError) on import
    "oac00": "raise ImportError('broken on purpose')\n",
    # depends on a missing module -> ModuleNotFoundError on import
    "oad00": "import this_module_does_not_exist_r40\n",
    # syntax error on import
    "oae00": "def broken(:\n",
    # component parser raising ModuleNotFoundError / KeyError when called
    "oaf00": "def parseSRCToJson(*a):\n"
             "    raise ModuleNotFoundError('from component')\n",
    "ob000": "def parseSRCToJson(*a):\n    raise KeyError('boom')\n",
    # returns non-string values
    "ob100": "def parseSRCToJson(*a):\n    return None\n",
    # no parseSRCToJson at all
    "ob200": "x = 1\n",
    # hostboot parser used for BCxxxxxx refcodes
    "bsrc": "import json\n"
            "def parseSRCToJson(refcode, *words):\n"
            "    return json.dumps({'HB': refcode.strip(), 'n': len(words)})\n",
    # a 2000 component that shows up late
    "o2000": "def parseSRCToJson(*a):\n    return '\"late\"'\n",
}


def api_cases(blobs):
    def mv(b):
        return {"t": "mv", "v": b.hex()}

    model_ecs = ["20da0020", "20DA0020", "20Da0020", "60d20020", "23ABcdEf",
                 "11111111", "22222222", "33333333", "abcdef01", "ABCDEF01",
                 "xyz", "", "0123ABcdEf", "20da002", "20da0020\n", " 20da0020",
                 "some_string", 123, None, {"t": "bytes", "v": "20da0020"},
                 ["2", "0"], {"t": "strsub", "v": "20da0020"}]
    ints = [0, 1, 7, 255, 256, 65535, 65536, -1, {"t": "float", "v": "3.7"},
            {"t": "float", "v": "2.0"}, True, False, "5", None,
            {"t": "big", "v": str(1 << 70)}, [1], {"t": "intsub", "v": 3}]
    pd = []
    for m in model_ecs:
        pd.append(("query_model_ec", [m]))
    for m in model_ecs:
        for a in [0, 1, 2, 3, 5, 6, 68, "1", "x", None, -1, True,
                  {"t": "float", "v": "1.0"}, [1], {"t": "intsub", "v": 3}]:
            pd.append(("get_attn_desc", [m, a]))
    for m in model_ecs[:12] + model_ecs[17:]:
        for n in ints:
            pd.append(("get_chip_desc", [m, n, 3]))
            pd.append(("get_chip_desc", [m, 2, n]))
    sig_ids = ["1234", "ABCD", "abcd", "0000", "9999", "aaaa", "bbbb", "cccc",
               "dddd", "eeee", "ffff", "123", "12345", "zzzz", "", None, 1234,
               {"t": "strsub", "v": "1234"}]
    for m in model_ecs[:9] + model_ecs[10:12] + model_ecs[17:19]:
        for s in sig_ids:
            for bit in [0, 1, 2, 3, 7, 255]:
                pd.append(("get_sig_desc", [m, s, 1, bit]))
    for n in ints:
        pd.append(("get_sig_desc", ["20da0020", "1234", n, 0]))
        pd.append(("get_sig_desc", ["20da0020", "1234", 0, n]))
        pd.append(("get_sig_desc", ["23abcdef", "1234", n, n]))
    reg_ids = ["abcdef", "ABCDEF", "000001", "00c0de", "0000aa", "123456",
               "aaaaaa", "bbbbbb", "cccccc", "dddddd", "eeeeee", "ffffff",
               "000000", "abcde", "abcdefa", "", "zzzzzz", None, 1,
               {"t": "strsub", "v": "abcdef"}]
    for m in model_ecs[:9] + model_ecs[10:12] + model_ecs[17:19]:
        for r in reg_ids:
            for inst in [0, 1, 2, 7, 255]:
                pd.append(("get_reg_data", [m, r, inst]))
    for n in ints:
        pd.append(("get_reg_data", ["20da0020", "abcdef", n]))
        pd.append(("get_reg_data", ["23abcdef", "abcdef", n]))
    words = ["20da0020", "20DA0020", "00010001", "0001ff03", "12340007",
             "ABCD0301", "abcd0301", "60d20020", "23abcdef", "11111111",
             "dddd0100", "22222222", "00010144", "33333333", "ffffffff",
             "00000000", "", "1234", "123456789", "zzzzzzzz", "0001zz01",
             "00010zz1", "000100zz", "zz010001", "1234zz07", "123400zz",
             "+1+1+1+1", " 1 1 1 1", "0x010x01", None, 5,
             {"t": "strsub", "v": "00010001"}]
    for a in words[:3] + words[7:16] + words[16:20] + words[29:]:
        for b in words[2:4] + words[12:13] + words[14:]:
            for c in words[4:7] + words[10:11] + words[14:]:
                pd.append(("get_signature", [a, b, c]))

    ud = [[st, ver, mv(data)] for st, ver, data in blobs]
    some = [b for b in blobs if len(b[2]) >= 8][:3]
    weird_sts = [{"t": "float", "v": "1.0"}, {"t": "float", "v": "2.5"}, True,
                 False, "1", None, [1], {"t": "tuple", "v": [1]},
                 {"t": "big", "v": str(1 << 70)}]
    for st in weird_sts:
        ud.append([st, 1, mv(b"\0\0\0\0")])
        ud.append([st, None, mv(bytes.fromhex("20da0020deadbeef"))])
    payloads = [build_sig_list([("20da0020", 1, 0, 1, "1234", 0, 0)]),
                build_reg_dump([("20da0020", 0, 0,
                                 [("abcdef", 0, b"\x01\x02")], None)]),
                b'{"a": 1}\0', bytes(range(24)), bytes(range(8))]
    for st, payload in enumerate(payloads, 1):
        # item size 2: every "byte" read by the parser is a 16 bit item
        for p in (payload * 2, payload * 4 + b"\0" * 64,
                  bytes(8) + payload * 3):
            ud.append([st, 1, {"t": "mvH", "v": p[:len(p) & ~1].hex()}])
        for wrap in ("bytes", "bytearray"):
            ud.append([st, 1, {"t": wrap, "v": payload.hex()}])
        ud.append([st, 1, None])
        ud.append([st, 1, "a string"])
        ud.append([st, 1, 17])
        ud.append([st, 1, [1, 2, 3, 4] * 6])
        ud.append([st, "v", mv(payload)])

    srce5 = []
    for ref in ["BD8DE510", "BD8DE500", "BD8DE5FF", "BD8DE51", "BD8DE5100",
                "bd8de510", "", "10", "      10", None, 5,
                {"t": "bytes", "v": "424438444535313030"},
                ["B", "D", "8", "D", "E", "5", "1", "0"],
                {"t": "tuple", "v": list("BD8DE510")}]:
        for w6, w7, w8 in [("20DA0020", "00010001", "12340007"),
                           ("60D20020", "00100203", "12340100"),
                           ("23ABCDEF", "22223344", "55556677"),
                           ("11111111", "00010101", "DDDD0100"),
                           ("22222222", "00010144", "12340100"),
                           ("33333333", "00010101", "12340100"),
                           ("00000000", "00000000", "00000000"),
                           ("", "", ""), ("zz", "00010001", "12340007"),
                           ("20DA0020", "0001zz01", "12340007"),
                           ("20DA0020", "00010001", "1234zz07"),
                           (None, "00010001", "12340007"),
                           ("20DA0020", 5, "12340007")]:
            srce5.append([ref, "00000055", "00050000", "00000000", "02000000",
                          w6, w7, w8, "12345678"])

    osrc = []
    std = ["00000055", "00050000", "00000000", "02000000",
           "20DA0020", "00010001", "12340007", "12345678"]
    for ref in ["BD8DE510", "BD8DE500", "bd8de510", "BD8Dd510", "BD8D2000",
                "BD8D20FF", "BC8A1234", "BCxx", "BC", "bc8a1234", "B",
                "BD", "", "BD8D", "BD8DE", "BD8D..10", "BD8D/\\10",
                "BD8D  10", "BD8D\u00e910", "BD8D\x0000", "11001510",
                "BD8DAB00", "BD8DAC00", "BD8DAD00", "BD8DAE00", "BD8DAF00",
                "BD8DB000", "BD8DB100", "BD8DB200", "BD8Dab00", "BD8DAC01",
                "BD8DE510                        ",
                None, 5, {"t": "bytes", "v": "4244384445353130"},
                ["B", "D", "8", "D", "E", "5", "1", "0"],
                {"t": "tuple", "v": list("BC8DE510")},
                {"t": "strsub", "v": "BD8DE510"}]:
        osrc.append([ref] + std)
    osrc.append(["BD8DE510"] + std[:4] + ["23ABCDEF", "22223344", "55556677",
                                          "0"])
    osrc.append(["BD8DE510"] + std[:4] + ["zz", "22223344", "55556677", "0"])
    osrc.append(["BD8DE510"] + [None] * 8)
    osrc.append(["BD8DAB00"] + [None] * 8)

    oc = ["BMC0001", "BMC0002", "BMC0003", "BMC0004", "BMC0005", "BMC0006",
          "BMC0007", "BMC0008", "BMC0009", "BMC9999", "EMPTY", "NONE", "STR",
          "bmc0001", "BMC0001 ", "", None, 1, 7, True,
          {"t": "float", "v": "7.0"}, [1], {"t": "tuple", "v": ["BMC0001"]},
          {"t": "bytes", "v": "424d4330303031"},
          {"t": "strsub", "v": "BMC0002"}]

    return {"pd_calls": pd, "ud_calls": ud, "srce5_calls": srce5,
            "osrc_calls": osrc, "oc_calls": oc}


# --------------------------------------------------------------------------
# harness
# --------------------------------------------------------------------------

def run(cmd, root_modules, norm, cwd=None, extra_env=None):
    env = dict(os.environ)
    env["PYTHONPATH"] = root_modules
    env["PYTHONDONTWRITEBYTECODE"] = "1"
    env["PYTHONHASHSEED"] = "0"
    env.pop("PYTHONOPTIMIZE", None)
    if extra_env:
        env.update(extra_env)
    p = subprocess.run(cmd, stdout=subprocess.PIPE, stderr=subprocess.PIPE,
                       env=env, cwd=cwd, timeout=1800)
    out, err = p.stdout, p.stderr
    for a, b in norm:
        out = out.replace(a.encode(), b.encode())
        err = err.replace(a.encode(), b.encode())
    return p.returncode, out, err


def snapshot(d):
    res = {}
    for dirpath, _, files in os.walk(d):
        for f in files:
            full = os.path.join(dirpath, f)
            with open(full, "rb") as fp:
                res[os.path.relpath(full, d)] = fp.read()
    return res


def main():
    if len(sys.argv) != 3:
        sys.exit(__doc__)
    roots = [os.path.abspath(sys.argv[1]), os.path.abspath(sys.argv[2])]
    for r in roots:
        if not os.path.isdir(os.path.join(r, "modules", "pel")):
            sys.exit("%s is not a source tree" % r)

    work = tempfile.mkdtemp(prefix="dc_", dir=HERE)
    failures = []
    ncases = 0
    try:
        rng = random.Random(20240315)
        blobs = ud_blobs(rng)
        cases = api_cases(blobs)
        profs = profiles()
        cases["profiles"] = list(profs)
        cases["ud_profiles"] = ["empty", "good", "quirky"]
        for name, files in profs.items():
            write_profile(os.path.join(work, "profiles", name), files)
        for name, src in EXTRA_SRC.items():
            d = os.path.join(work, "extra_src", name)
            os.makedirs(d)
            open(os.path.join(d, "__init__.py"), "w").close()
            with open(os.path.join(d, name + ".py"), "w") as fp:
                fp.write(src)
        with open(os.path.join(work, "cases.json"), "w") as fp:
            json.dump(cases, fp)
        driver = os.path.join(work, "driver.py")
        with open(driver, "w") as fp:
            fp.write(DRIVER)

        # trees with chip data: copies of the modules with JSON files added
        trees = []       # (label, [pristine_modules, patched_modules])
        trees.append(("nodata", [os.path.join(r, "modules") for r in roots]))
        for prof in ("good", "quirky", "bad_json"):
            mods = []
            for i, r in enumerate(roots):
                dst = os.path.join(work, "tree_%s_%d" % (prof, i), "modules")
                shutil.copytree(os.path.join(r, "modules"), dst,
                                ignore=shutil.ignore_patterns("__pycache__"))
                for name, content in profs[prof].items():
                    with open(os.path.join(dst, "pel", "hwdiags", "data",
                                           name), "wb") as fp:
                        fp.write(content)
                mods.append(dst)
            trees.append((prof, mods))

        def norm_for(mods):
            return [(mods, "<MODULES>")] + [(r, "<ROOT>") for r in roots]

        # ---- API driver ---------------------------------------------------
        for opt in ([], ["-O"]):
            res = []
            for i, r in enumerate(roots):
                mods = os.path.join(r, "modules")
                res.append(run([PY] + opt + [driver, work], mods,
                               norm_for(mods)))
            label = "api%s" % "".join(opt)
            lines = res[0][1].decode("utf8", "replace").splitlines()
            if res[0][0] != 0 or not lines or \
                    not lines[-1].startswith("TOTAL "):
                failures.append("%s: driver did not complete on pristine tree"
                                " (rc=%d)\n%s" % (label, res[0][0],
                                                   res[0][2].decode()[-2000:]))
            n = len(lines)
            ncases += n
            if res[0] != res[1]:
                l2 = res[1][1].decode("utf8", "replace").splitlines()
                diffs = [(a, b) for a, b in zip(lines, l2) if a != b]
                msg = "%s: outputs differ (rc %d/%d, %d/%d lines)" % (
                    label, res[0][0], res[1][0], len(lines), len(l2))
                for a, b in diffs[:15]:
                    msg += "\n  - %s\n  + %s" % (a[:400], b[:400])
                if res[0][2] != res[1][2]:
                    msg += "\n  stderr differs:\n%s\n----\n%s" % (
                        res[0][2].decode()[-1500:], res[1][2].decode()[-1500:])
                failures.append(msg)

        # ---- CLI ----------------------------------------------------------
        pels = make_pels(random.Random(4711), blobs)
        master = os.path.join(work, "pels_master")
        os.makedirs(master)
        for name, data in pels:
            with open(os.path.join(master, name), "wb") as fp:
                fp.write(data)
        first = pels[0][0]
        single = [first] + [n for n, _ in pels if n.startswith(
            ("sec_", "unk_", "q1_", "q2_", "q3_", "hbti_", "hb_", "nocomp_",
             "lower_", "trunc_0300", "corrupt_03"))]

        def cli_variants(tree_label):
            v = []
            v.append(("all", ["-p", "@PELS@", "-a", "-E"], []))
            v.append(("all", ["-p", "@PELS@", "-a", "-E"], ["-O"]))
            v.append(("all-rev-noplug", ["-p", "@PELS@", "-a", "-E", "-r",
                                         "-P"], []))
            v.append(("all-serviceable", ["-p", "@PELS@", "-a"], []))
            v.append(("all-hidden-info", ["-p", "@PELS@", "-a", "-H", "-S",
                                          "Informational"], []))
            v.append(("list", ["-p", "@PELS@", "-l", "-E"], []))
            v.append(("count", ["-p", "@PELS@", "-n", "-E"], []))
            v.append(("src", ["-p", "@PELS@", "--src", "BD8DE5"], []))
            v.append(("json", ["-p", "@PELS@", "-j", "-o", "@OUT@", "-E"], []))
            v.append(("json-clean", ["-p", "@PELS@", "-j", "-c", "-E"],
                      ["-O"]))
            v.append(("id", ["-p", "@PELS@", "-i", "0x50000001"], []))
            v.append(("bmcid", ["-p", "@PELS@", "--bmc-id", "2"], []))
            v.append(("hex", ["-p", "@PELS@", "-i", "50000002", "-x"], []))
            if tree_label in ("nodata", "good"):
                for s in single:
                    v.append(("file:" + s, ["-f", "@PELS@/" + s], []))
                    v.append(("file-O:" + s, ["-f", "@PELS@/" + s], ["-O"]))
                v.append(("file-P", ["-f", "@PELS@/" + first, "-P"], []))
                v.append(("file-clean", ["-f", "@PELS@/" + first, "-c"], []))
            else:
                v.append(("file:" + first, ["-f", "@PELS@/" + first], []))
                v.append(("file:" + single[4], ["-f", "@PELS@/" + single[4]],
                          []))
                v.append(("file:" + single[5], ["-f", "@PELS@/" + single[5]],
                          []))
            return v

        for tree_label, mods in trees:
            for vname, args, pyopt in cli_variants(tree_label):
                res = []
                for i in range(2):
                    peldir = os.path.join(work, "pels_run")
                    outdir = os.path.join(work, "out_run")
                    for d in (peldir, outdir):
                        if os.path.exists(d):
                            shutil.rmtree(d)
                    shutil.copytree(master, peldir)
                    os.makedirs(outdir)
                    a = [x.replace("@PELS@", peldir).replace("@OUT@", outdir)
                         for x in args]
                    tool = os.path.join(mods[i], "pel", "peltool",
                                        "peltool.py")
                    rc, out, err = run([PY] + pyopt + [tool] + a, mods[i],
                                       norm_for(mods[i]), cwd=work)
                    res.append((rc, out, err, snapshot(peldir),
                                snapshot(outdir)))
                ncases += 1
                if res[0] != res[1]:
                    what = [n for n, a, b in zip(
                        ("rc", "stdout", "stderr", "pel dir", "out dir"),
                        res[0], res[1]) if a != b]
                    msg = "cli[%s] %s %s: differs in %s" % (
                        tree_label, vname, " ".join(pyopt), ", ".join(what))
                    if res[0][1] != res[1][1]:
                        la = res[0][1].decode("utf8", "replace").splitlines()
                        lb = res[1][1].decode("utf8", "replace").splitlines()
                        for x, y in list(zip(la, lb)):
                            if x != y:
                                msg += "\n  - %s\n  + %s" % (x[:300], y[:300])
                                break
                    if res[0][2] != res[1][2]:
                        msg += "\n  stderr:\n%s\n  ----\n%s" % (
                            res[0][2].decode()[-800:],
                            res[1][2].decode()[-800:])
                    failures.append(msg)
    finally:
        if os.environ.get("DIFFCHECK_KEEP"):
            print("work dir kept: %s" % work)
        else:
            shutil.rmtree(work, ignore_errors=True)

    if failures:
        for f in failures:
            print(f)
        print("DIFFERENT (%d problems, %d cases)" % (len(failures), ncases))
        sys.exit(1)
    print("IDENTICAL (%d cases)" % ncases)
    sys.exit(0)


if __name__ == "__main__":
    main()
