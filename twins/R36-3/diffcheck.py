#!/usr/bin/env python
"""
Differential check for refactorings of modules/pel/peltool/peltool.py and
modules/pel/peltool/config.py.

usage: diffcheck.py <pristine_root> <patched_root>

A corpus of binary PELs (well formed, truncated, corrupted, random) is built
once.  Then, for both source trees,
  * an in-process driver (run in a subprocess with PYTHONPATH=<root>/modules,
    once normally and once with `python -O`) calls every public function of
    peltool.py directly and calls main() with many argument vectors (non-BMC
    and simulated BMC environment), recording results, exceptions, stdout,
    stderr and the files left behind;
  * the real CLI is started as a subprocess for many option combinations,
    recording stdout bytes, exit status, stderr and the files left behind.
The records of both trees are compared one by one.
Prints "IDENTICAL (<n> cases)" and exits 0 if everything is equal, exits 1
otherwise.
"""
import hashlib
import json
import os
import random
import re
import shutil
import struct
import subprocess
import sys
import tempfile

PY = sys.executable
HERE = os.path.dirname(os.path.abspath(__file__))


# --------------------------------------------------------------------------
# binary PEL construction
# --------------------------------------------------------------------------

def ts(y=2023, mo=4, d=5, h=6, mi=7, s=8, hs=9):
    return bytes.fromhex("%04d%02d%02d%02d%02d%02d%02d" % (y, mo, d, h, mi, s, hs))


def hdr(sid, length, ver=1, sub=0, comp=0x2000):
    return struct.pack('>HHBBH', sid & 0xFFFF, length & 0xFFFF, ver, sub, comp)


def sec_ph(count, creator=b'O', obmc=1, plid=0x50000001, eid=0x50000001,
           comp=0x2000, sid=0x5048, month=4):
    body = ts(mo=month) + ts(mo=month, s=30) + creator + b'\x00\x00' + bytes([count & 0xFF])
    body += struct.pack('>IQII', obmc, 0x0102030405060708, plid, eid)
    return hdr(sid, 8 + len(body), 1, 0, comp) + body


def sec_uh(sev=0x40, flags=0x2000, subsys=0x10, scope=3, etype=0, states=0,
           sid=0x5548, comp=0x2000):
    body = struct.pack('>BBBBIBBHI', subsys, scope, sev, etype, 0, 1, 2, flags, states)
    return hdr(sid, 8 + len(body), 1, 0, comp) + body


def callout(proc=b'BMC0001\x00', prio=0x48, loc=b'U78DA.ND1-P0\x00\x00\x00\x00', fruflags=0x02,
            ccin=b'', sn=b''):
    fru = b'ID' + b'\x00' + bytes([fruflags])
    if fruflags & 0x0A:
        fru += proc
    if fruflags & 0x04:
        fru += ccin
    if fruflags & 0x01:
        fru += sn
    fru = fru[:2] + bytes([len(fru)]) + fru[3:]
    size = 4 + len(loc) + len(fru)
    return bytes([size, 0x0, prio, len(loc)]) + loc + fru


def sec_src(ascii_=b'BD8D2000', flags=0, words=None, wordcount=9, callouts=None,
            sid=0x5053, comp=0x2000):
    words = words or [0x02, 0x11110000, 0x22220000, 0x23000000, 5, 6, 7, 8]
    body = bytes([2, flags | (1 if callouts else 0), 0, wordcount]) + b'\x00\x00' + b'\x00\x48'
    body += b''.join(struct.pack('>I', w) for w in words)
    body += ascii_.ljust(32, b' ')
    if callouts:
        co = b''.join(callouts)
        body += bytes([0xC0, 0]) + struct.pack('>H', (4 + len(co)) // 4) + co
    return hdr(sid, 8 + len(body), 1, 1, comp) + body


def sec_eh(symptom=b'BD8D2000_11110000\x00\x00\x00', comp=0x2000):
    body = b'9105-22A'.ljust(8, b'\0') + b'SN1234567'.ljust(12, b'\0')
    body += b'fw1030.00-1'.ljust(16, b'\0') + b'sub-1.2'.ljust(16, b'\0')
    body += b'\0\0\0\0' + ts(mo=11) + b'\0\0\0' + bytes([len(symptom)]) + symptom
    return hdr(0x4548, 8 + len(body), 1, 0, comp) + body


def sec_mt(comp=0x2000):
    body = b'9105-22A'.ljust(8, b'\0') + b'SN7654321'.ljust(12, b'\0')
    return hdr(0x4D54, 8 + len(body), 1, 0, comp) + body


def sec_ud(data, sub=1, comp=0x2000, ver=1, sid=0x5544):
    pad = (-len(data)) % 4
    data = data + b'\0' * pad
    return hdr(sid, 8 + len(data), ver, sub, comp) + data


def sec_ed(data, creator=b'O', sub=1, comp=0x2000, ver=1):
    pad = (-len(data)) % 4
    data = data + b'\0' * pad
    return hdr(0x4544, 12 + len(data), ver, sub, comp) + creator + b'\0\0\0' + data


def sec_lp(name=b'lpar-one\0\0\0\0', targets=(1, 2, 3)):
    body = struct.pack('>HBBI', 0x11, len(name), len(targets), 0x90000001) + name
    body += b''.join(struct.pack('>H', t) for t in targets)
    if len(targets) % 2:
        body += b'\0\0'
    return hdr(0x4C50, 8 + len(body), 1, 0, 0x2000) + body


def sec_other(sid=0x4448, data=b'dump location data 123'):
    pad = (-len(data)) % 4
    data = data + b'\0' * pad
    return hdr(sid, 8 + len(data), 1, 0, 0x1234) + data


JSON_UD = json.dumps({"we\"ird:key": "v:\"x\" {", "nested": {"k": [1, 2, {"z": 1}]},
                      "plain": 5, "a\\b": "c", "": "empty", "sp ace": [], "{": 1}).encode()
TEXT_UD = b'line one\nline\ttwo \x01\nthree: {x}\n'


def build_pel(rnd, idx, sev, flags, creator=b'O', sections=None, count=None,
              obmc=None, plid=None, eid=None, ascii_=None):
    eid = eid if eid is not None else 0x50000000 + idx
    plid = plid if plid is not None else 0x50000000 + (idx // 3) * 3
    obmc = obmc if obmc is not None else 100 + idx
    if sections is None:
        pool = [
            sec_eh(), sec_mt(), sec_ud(JSON_UD, 1), sec_ud(TEXT_UD, 3), sec_ud(b'\x01\x02\x03\x04\x05', 2),
            sec_ud(b'custom-data', 4), sec_ud(b'\0\0\0\1abcdefghijkl', 1, comp=0xE500),
            sec_ud(b'plugin less', 7, comp=0x3100), sec_ed(JSON_UD), sec_ed(b'xx\xffyy', b'B', 2, 0x0100),
            sec_lp(), sec_lp(b'', ()), sec_other(), sec_other(0x4D49, b'mfg'), sec_other(0x1234, b'?'),
            sec_src(b'BD8D2001', sid=0x5353), sec_ud(b'not json at all', 1), sec_ud(b'null', 1),
            sec_ud(b'[1, 2]', 1), sec_ud(b'', 1),
        ]
        k = rnd.randrange(0, 7)
        sections = [rnd.choice(pool) for _ in range(k)]
        if rnd.random() < 0.8:
            co = None
            if rnd.random() < 0.5:
                co = [callout(), callout(b'PN123456', 0x4D, b'', 0x0D, b'CCIN', b'SERIALNUM012')]
            sections.insert(0, sec_src(ascii_ or rnd.choice([b'BD8D2000', b'BD702003', b'11002634',
                                                              b'BC8A0501', b'B7001111', b'C1001F01']),
                                       callouts=co, wordcount=rnd.choice([9, 9, 5, 2, 1])))
    n = len(sections) + 2 if count is None else count
    return sec_ph(n, creator, obmc, plid, eid, month=1 + idx % 12) + sec_uh(sev, flags) + b''.join(sections)


def build_corpus(root):
    rnd = random.Random(20240606)
    logs = os.path.join(root, 'logs')
    os.makedirs(logs)
    names = []

    def put(name, data, d=logs):
        with open(os.path.join(d, name), 'wb') as f:
            f.write(data)
        names.append(name)

    idx = 0
    good = []
    sevs = [0x00, 0x10, 0x20, 0x21, 0x40, 0x51, 0x50, 0x60, 0x71]
    flagsets = [0x0000, 0x2000, 0x4000, 0x8000, 0x6000, 0xA000, 0xE000, 0x2800]
    for sev in sevs:
        for fl in (flagsets if sev in (0x00, 0x40, 0x51) else rnd.sample(flagsets, 3)):
            idx += 1
            creator = rnd.choice([b'O', b'O', b'O', b'B', b'H', b'Z'])
            data = build_pel(rnd, idx, sev, fl, creator)
            good.append(data)
            ext = rnd.choice(['', '', '.pel', '.txt'])
            put("20230%d0512345678_%08X%s" % (1 + idx % 9, 0x50000000 + idx, ext), data)
    # fixed, known ones
    idx += 1
    put("2023040506070809_5000AAAA", build_pel(
        rnd, idx, 0x40, 0x2000, eid=0x5000AAAA, plid=0x5000AAAA, obmc=4242,
        sections=[sec_src(b'BD8D2000', callouts=[callout()]), sec_eh(), sec_mt(), sec_ud(JSON_UD, 1),
                  sec_ud(TEXT_UD, 3), sec_ed(JSON_UD), sec_lp(), sec_other(), sec_ud(b'zz', 9, 0xE500)]))
    put("2023040506070809_5000AAAB.pel", build_pel(
        rnd, idx, 0x00, 0x4000, eid=0x5000AAAB, plid=0x5000AAAA, obmc=4243,
        sections=[sec_src(b'BD8D2000'), sec_ud(JSON_UD, 1)]))
    put("2023040506070809_5000AAAC", build_pel(  # no primary SRC
        rnd, idx, 0x40, 0x2000, eid=0x5000AAAC, plid=0x5000AAAA, obmc=4244,
        sections=[sec_eh(), sec_ud(TEXT_UD, 3)]))
    put("dup_eid_5000AAAA.pel", build_pel(
        rnd, idx, 0x20, 0xA000, eid=0x5000AAAA, plid=0x5000BBBB, obmc=4242,
        sections=[sec_src(b'11002634')]))
    base = good[3]
    # malformed
    put("empty_50001000", b'')
    put("tiny_50001001", b'PH\x00')
    for i in range(3):
        put("random_5000200%d" % i, bytes(rnd.randrange(256) for _ in range(200 + 37 * i)))
    put("badph_50003000", b'XX' + base[2:])
    put("baduh_50003001", base[:48] + b'ZZ' + base[50:])
    big = good[5]
    for n in (7, 8, 20, 47, 48, 49, 55, 56, 71, 72, 73, 80, 100, 140, len(big) - 1):
        put("trunc%03d_5000400%X" % (n, n % 16), big[:n])
    for i in range(14):
        src = bytearray(rnd.choice(good))
        for _ in range(rnd.randrange(1, 6)):
            src[rnd.randrange(len(src))] = rnd.randrange(256)
        put("corrupt%02d_500050%02X" % (i, i), bytes(src))
    put("count0_50006000", build_pel(rnd, 900, 0x40, 0x2000, sections=[sec_src()], count=0))
    put("count2_50006002", build_pel(rnd, 901, 0x40, 0x2000, sections=[sec_src()], count=2))
    put("count9_50006009", build_pel(rnd, 902, 0x40, 0x2000, sections=[sec_src(), sec_mt()], count=9))
    put("nonutf8_50007000", build_pel(rnd, 903, 0x40, 0x2000,
                                      sections=[sec_src(b'BD8D\xff\xfe00'), sec_mt()]))
    put("badlen_50007001", build_pel(rnd, 904, 0x40, 0x2000,
                                     sections=[hdr(0x5544, 4, 1, 1, 0x2000), sec_mt()]))
    put("notes.txt", b'just some notes\n')
    sub = os.path.join(logs, 'archive')
    os.makedirs(sub)
    with open(os.path.join(sub, 'nested_5000AAAA'), 'wb') as f:
        f.write(good[0])

    # small directory with odd entries
    weird = os.path.join(root, 'weird')
    os.makedirs(weird)
    with open(os.path.join(weird, 'a_5000AAAA'), 'wb') as f:
        f.write(good[1])
    os.symlink(os.path.join(weird, 'does-not-exist'), os.path.join(weird, 'b_dangling_5000CCCC'))
    os.symlink(sub, os.path.join(weird, 'c_dirlink'))
    with open(os.path.join(weird, 'd_5000DDDD'), 'wb') as f:
        f.write(good[2])

    empty = os.path.join(root, 'emptydir')
    os.makedirs(empty)

    with open(os.path.join(root, 'exclude.txt'), 'w') as f:
        f.write("BD8D2000\nBD702003\n# comment\n")
    with open(os.path.join(root, 'exclude_none.txt'), 'w') as f:
        f.write("")
    with open(os.path.join(root, 'exclude_bin.txt'), 'wb') as f:
        f.write(b'\xff\xfe\x00BD8D')
    return names


# --------------------------------------------------------------------------
# command lines ({D} = directory with a fresh copy of the corpus,
# {C} = corpus root holding exclude files, {W} = weird dir copy, {O} = out dir)
# --------------------------------------------------------------------------

FILTERS = [
    [], ['-E'], ['-s'], ['-N'], ['-H'], ['-t'], ['-H', '-O'], ['-N', '-O'], ['-s', '-O'],
    ['-O'], ['-S', 'Informational'], ['-S', 'Informational', 'Recovered'],
    ['-O', '-S', 'Unrecoverable'], ['-O', '-S', 'Predictive', 'Critical'],
    ['-s', '-O', '-S', 'Critical'], ['-H', '-S', 'Predictive', '-O'], ['-N', '-S', 'Informational', '-O'],
    ['-t', '-O'], ['-s', '-N', '-H'], ['-S', 'Diagnostic', 'Symptom', '-H'],
]


def cli_cases():
    cases = []
    for f in FILTERS:
        cases.append(['-p', '{D}', '-l'] + f)
        cases.append(['-p', '{D}', '-n'] + f)
    for f in FILTERS[::3]:
        cases.append(['-p', '{D}', '-a'] + f)
    cases += [
        ['-p', '{D}', '-l', '-r'], ['-p', '{D}', '-l', '-e', '.pel'], ['-p', '{D}', '-l', '-e', 'pel'],
        ['-p', '{D}', '-l', '-e', ''], ['-p', '{D}', '-l', '-x'], ['-p', '{D}', '-l', '-E', '-x', '-r'],
        ['-p', '{D}', '-l', '-P', '-E'], ['-p', '{D}', '-n', '-e', '.txt', '-E'], ['-p', '{D}', '-n', '-r', '-x'],
        ['-p', '{D}', '-a', '-P'], ['-p', '{D}', '-a', '-x'], ['-p', '{D}', '-a', '-E', '-r', '-e', '.pel'],
        ['-p', '{D}', '-a', '-E', '-P', '-r'], ['-p', '{D}', '-a', '-x', '-H', '-O'],
        ['-p', '{E}', '-l'], ['-p', '{E}', '-a'], ['-p', '{E}', '-n'], ['-p', '{E}', '-a', '-x'],
        ['-p', '{E}', '-i', '5000AAAA'], ['-p', '{E}', '-D'], ['-p', '{E}', '-j'],
        ['-p', '{W}', '-l'], ['-p', '{W}', '-a'], ['-p', '{W}', '-n'], ['-p', '{W}', '-D'],
        ['-p', '{W}', '-i', '5000CCCC'], ['-p', '{W}', '-d', '5000CCCC'], ['-p', '{W}', '-j'],
        ['-p', '{W}', '--bmc-id', '102'], ['-p', '{W}', '--plid', '50000000'], ['-p', '{W}', '--src', 'BD'],
        # -i
        ['-p', '{D}', '-i', '5000AAAA'], ['-p', '{D}', '-i', '0x5000AAAA'], ['-p', '{D}', '-i', '0X5000aaab'],
        ['-p', '{D}', '-i', '5000aaac', '-x'], ['-p', '{D}', '-i', '5000AAAA', '-P'], ['-p', '{D}', '-i', '5FFFFFFF'],
        ['-p', '{D}', '-i', '5000AAA'], ['-p', '{D}', '-i', '0x'], ['-p', '{D}', '-i', '50001000'],
        ['-p', '{D}', '-i', '50003000'], ['-p', '{D}', '-i', '50003001'], ['-p', '{D}', '-i', '5000400F'],
        ['-p', '{D}', '-i', '50000003', '-H', '-O'], ['-p', '{D}', '-i', '5000AAAB', '-O'], ['-p', '{D}', '-i', ''],
        # --bmc-id
        ['-p', '{D}', '--bmc-id', '4242'], ['-p', '{D}', '--bmc-id', '4243'], ['-p', '{D}', '--bmc-id', '4244', '-x'],
        ['-p', '{D}', '--bmc-id', '0'], ['-p', '{D}', '--bmc-id', '99999'], ['-p', '{D}', '--bmc-id', '104', '-P'],
        ['-p', '{D}', '--bmc-id', '04242'], ['-p', '{D}', '--bmc-id', '1003'], ['-p', '{D}', '--bmc-id', '4243', '-O'],
        # --plid
        ['-p', '{D}', '--plid', '5000AAAA'], ['-p', '{D}', '--plid', '0x5000aaaa', '-r'],
        ['-p', '{D}', '--plid', '5000AAAA', '-x'], ['-p', '{D}', '--plid', '50000003', '-E'],
        ['-p', '{D}', '--plid', '5000'], ['-p', '{D}', '--plid', '5000BBBB', '-e', '.pel'],
        ['-p', '{D}', '--plid', '5FFFFFFF'], ['-p', '{D}', '--plid', '50000006', '-H', '-O'],
        # --src / --src-exclude
        ['-p', '{D}', '--src', 'BD8D'], ['-p', '{D}', '--src', 'BD', '-r'], ['-p', '{D}', '--src', 'BD8D2000', '-x'],
        ['-p', '{D}', '--src', '1100', '-E'], ['-p', '{D}', '--src', 'X' * 32], ['-p', '{D}', '--src', 'X' * 33],
        ['-p', '{D}', '--src', 'bd8d'], ['-p', '{D}', '--src', '0', '-S', 'Informational'],
        ['-p', '{D}', '--src', 'BD', '--src-exclude', '{C}/exclude.txt'],
        ['-p', '{D}', '--src-exclude', '{C}/exclude.txt'], ['-p', '{D}', '--src-exclude', '{C}/exclude.txt', '-x'],
        ['-p', '{D}', '--src-exclude', '{C}/exclude_none.txt', '-E', '-r'],
        ['-p', '{D}', '--src-exclude', '{C}/missing.txt'], ['-p', '{D}', '--src-exclude', '{C}/exclude_bin.txt'],
        ['-p', '{D}', '--src-exclude', '{C}'],
        # -f
        ['-f', '{D}/2023040506070809_5000AAAA'], ['-f', '{D}/2023040506070809_5000AAAA', '-x'],
        ['-f', '{D}/2023040506070809_5000AAAA', '-P'], ['-f', '{D}/2023040506070809_5000AAAA', '-c'],
        ['-f', '{D}/2023040506070809_5000AAAB.pel'], ['-f', '{D}/2023040506070809_5000AAAB.pel', '-H', '-c'],
        ['-f', '{D}/2023040506070809_5000AAAB.pel', '-E', '-c', '-x'], ['-f', '{D}/2023040506070809_5000AAAC', '-O'],
        ['-f', '{D}/empty_50001000'], ['-f', '{D}/empty_50001000', '-c'], ['-f', '{D}/tiny_50001001'],
        ['-f', '{D}/badph_50003000', '-c'], ['-f', '{D}/baduh_50003001'], ['-f', '{D}/random_50002001'],
        ['-f', '{D}/trunc049_50004001'], ['-f', '{D}/trunc100_50004004', '-c'], ['-f', '{D}/count9_50006009'],
        ['-f', '{D}/nonutf8_50007000'], ['-f', '{D}/badlen_50007001'], ['-f', '{D}/missing'], ['-f', '{D}'],
        ['-f', '{D}/corrupt03_50005003'], ['-f', '{D}/corrupt07_50005007', '-c'], ['-f', '{D}/notes.txt'],
        ['-f', '{D}/2023040506070809_5000AAAA', '-p', '{E}', '-l'], ['-f', '', '-p', '{D}', '-n'],
        # -j
        ['-p', '{D}', '-j'], ['-p', '{D}', '-j', '-o', '{O}'], ['-p', '{D}', '-j', '-o', '{O}/missing'],
        ['-p', '{D}', '-j', '-c'], ['-p', '{D}', '-j', '-c', '-o', '{O}'], ['-p', '{D}', '-j', '-e', '.pel'],
        ['-p', '{D}', '-j', '-E', '-o', '{O}'], ['-p', '{D}', '-j', '-P', '-H', '-O', '-c'],
        ['-p', '{D}', '-j', '-x', '-o', '{O}'], ['-p', '{D}', '-j', '-o', ''], ['-p', '{D}', '-j', '-l'],
        # -d / -D
        ['-p', '{D}', '-d', '5000AAAA'], ['-p', '{D}', '-d', '0x5000aaab'], ['-p', '{D}', '-d', '5FFFFFFF'],
        ['-p', '{D}', '-d', '5000'], ['-p', '{D}', '-d', '50001000'], ['-p', '{D}', '-D'], ['-p', '{D}', '-D', '-e', '.pel'],
        ['-p', '{D}', '-d', '5000AAAA', '-D'], ['-p', '{D}', '-D', '-l'],
        # environment / usage errors
        [], ['-l'], ['-p', '{D}'], ['-p', '{D}/missing', '-l'], ['-p', '{D}/notes.txt', '-l'], ['-p', '', '-l'],
        ['--help'], ['-h'], ['--bogus'], ['-p', '{D}', '-l', '-S', 'Bogus'], ['-p', '{D}', '-l', '-S'],
        ['-p', '{D}', '-A'], ['-p'], ['-p', '{D}', '-l', '-a', '-n'], ['-p', '{D}', '-n', '-a'],
        ['-p', '{D}', '-i', '5000AAAA', '-l'], ['-p', '{D}', '--plid', '5000AAAA', '--src', 'BD'],
        ['-p', '{D}', '-x'], ['-p', '{D}', '-r', '-E'],
    ]
    return cases


def bmc_cases():
    """argument vectors for the simulated BMC environment (no -p, has -A)"""
    out = []
    for c in cli_cases():
        if '{W}' in c or '{E}' in c:
            continue
        c2 = []
        skip = False
        it = iter(c)
        for a in it:
            if a == '-p':
                nxt = next(it, None)
                if nxt != '{D}':
                    skip = True
                continue
            c2.append(a)
        if skip:
            continue
        out.append(c2)
    extra = [['-A', '-l'], ['-A', '-a', '-E'], ['-A', '-n', '-H'], ['-A', '-i', '5000AAAA'], ['-A', '-D'],
             ['-A', '-j'], ['-A', '-j', '-o', '{O}'], ['-p', '{D}', '-l'], ['-A'], ['-A', '-d', '5000AAAA'],
             ['-A', '--bmc-id', '100'], ['-A', '--plid', '50000000'], ['-A', '--src', 'BD'],
             ['--help'], ['-A', '-h'], ['--bogus'], ['-l', '-S', 'Bogus'], ['-A', '-f', '{D}/2023040506070809_5000AAAA'],
             ['-A', '-j', '-c', '-o', '{O}'], ['-A', '--src-exclude', '{C}/exclude.txt'], ['-A', '-n', '-E'],
             ['-A', '-a', '-x']]
    return out[::2] + extra


# --------------------------------------------------------------------------
# the in-process driver, run once per source tree
# --------------------------------------------------------------------------

DRIVER = r'''
import sys, os, io, json, shutil, contextlib, itertools, random, hashlib
from collections import OrderedDict

corpus, work, outfile, casefile = sys.argv[1:5]
import pel.peltool.peltool as pt
import pel.peltool.config as cfgmod
from pel.peltool.config import Config
from pel.datastream import DataStream
from pel.peltool.user_header import UserHeader
from pel.peltool.private_header import PrivateHeader

print("ROOT " + os.path.abspath(pt.__file__))
print("CFG " + os.path.abspath(cfgmod.__file__))

records = []

def norm(v):
    if isinstance(v, OrderedDict) or isinstance(v, dict):
        return {"__d": [[norm(k), norm(x)] for k, x in v.items()], "__t": type(v).__name__}
    if isinstance(v, tuple):
        return {"__tuple": [norm(x) for x in v]}
    if isinstance(v, list):
        return [norm(x) for x in v]
    if isinstance(v, (bytes, bytearray, memoryview)):
        return {"__b": bytes(v).hex()}
    if v is None or isinstance(v, (bool, int, float, str)):
        return {"__v": repr(v)} if isinstance(v, bool) else v
    if isinstance(v, Config):
        return {"__cfg": [[k, norm(x)] for k, x in vars(v).items()]}
    d = {}
    for k, x in sorted(vars(v).items()):
        if k == 'stream':
            continue
        d[k] = norm(x)
    return {"__obj": type(v).__name__, "vars": d}

def rec(name, payload):
    records.append(json.dumps([name, payload], sort_keys=False))

def call(fn, *a, **k):
    so, se = io.StringIO(), io.StringIO()
    res = {}
    with contextlib.redirect_stdout(so), contextlib.redirect_stderr(se):
        try:
            res["ret"] = norm(fn(*a, **k))
        except SystemExit as e:
            res["exit"] = repr(e.code)
        except BaseException as e:
            res["exc"] = [type(e).__name__, str(e)]
    res["out"] = so.getvalue()
    res["err"] = se.getvalue()
    return res

def snap(*dirs):
    out = []
    for d in dirs:
        for root, ds, fs in os.walk(d):
            ds.sort()
            for n in sorted(ds + fs):
                p = os.path.join(root, n)
                rel = os.path.relpath(p, work)
                if os.path.islink(p):
                    out.append([rel, "link"])
                elif os.path.isdir(p):
                    out.append([rel, "dir"])
                else:
                    with open(p, 'rb') as f:
                        out.append([rel, hashlib.sha1(f.read()).hexdigest()])
    return out

clean_snap = [None]

def fresh():
    """fresh copy of the corpus in the fixed work dir; returns (D, W, E, O).
    The copy is only redone if the previous case changed anything."""
    D = os.path.join(work, 'logs'); W = os.path.join(work, 'weird')
    E = os.path.join(work, 'emptydir'); O = os.path.join(work, 'out')
    if clean_snap[0] is not None and os.path.isdir(work) and snap(work) == clean_snap[0]:
        return D, W, E, O
    if os.path.lexists(work):
        shutil.rmtree(work)
    os.makedirs(work)
    shutil.copytree(os.path.join(corpus, 'logs'), D, symlinks=True)
    shutil.copytree(os.path.join(corpus, 'weird'), W, symlinks=True)
    os.makedirs(E); os.makedirs(O)
    clean_snap[0] = snap(work)
    return D, W, E, O

def stream_of(data):
    return DataStream(data, byte_order='big', is_signed=False)

def mkcfg(**kw):
    c = Config()
    for k, v in kw.items():
        setattr(c, k, v)
    return c

logs = os.path.join(corpus, 'logs')
files = sorted(f for f in os.listdir(logs) if os.path.isfile(os.path.join(logs, f)))
blobs = {}
for f in files:
    with open(os.path.join(logs, f), 'rb') as fd:
        blobs[f] = fd.read()

# ---- Config -------------------------------------------------------------
c = Config()
rec("Config.vars", norm(c))
c2 = Config()
rec("Config.indep", [c.severities is not c2.severities, c == c2, c != c2, c == c,
                     isinstance(hash(c), int), type(c).__name__, Config.__module__])
c.severities.append(3)
rec("Config.indep2", [c2.severities, Config().severities])
c.newattr = 5
rec("Config.newattr", c.newattr)
rec("Config.doc", Config.__doc__)

# ---- pure helpers -------------------------------------------------------
for sid in list(range(0, 0x200, 7)) + [0x5048, 0x5548, 0x5053, 0x5353, 0x4548, 0x4D54, 0x4448, 0x5357, 0x4C50,
            0x4C52, 0x484D, 0x4550, 0x4945, 0x4D49, 0x4348, 0x5544, 0x4549, 0x4544, 0xFFFF, 0x10000 + 0x5048,
            0x7FFFFFFF5544]:
    rec("getSectionName %x" % sid, call(pt.getSectionName, sid))
rec("getSectionName bad", call(pt.getSectionName, "PH"))

rnd = random.Random(7)
pp_inputs = [
    "", "{}", "{\n}", '    "a": 1,', '"a": 1', '    "Section": {', '    "a": "x{y",', '  "k\\"q": "v",',
    '    "a:b": "c:d",', '    "": "",', '    "very long key ' + "x" * 50 + '": 1,', '"a":', '    "a" : 1',
    '        "x": [', '            "item: not a key",', '    "tab\\tkey": 1\n    "b": 2', 'x"a": 1', ' "a":1"b":2',
    '    "a\\\\": "b",', '    "a\\\\\\"": {', "\n\n", '    "unterminated: 1',
]
for name in files[:25]:
    r = call(pt.parsePEL, stream_of(blobs[name]), mkcfg(every_pel=True), False)
    if "ret" in r and isinstance(r["ret"], dict) and r["ret"]["__tuple"][1]:
        pp_inputs.append(r["ret"]["__tuple"][1])
        pp_inputs.append(json.dumps(json.loads(r["ret"]["__tuple"][1]), indent=4))
for i in range(40):
    obj = {}
    for _ in range(rnd.randrange(1, 6)):
        key = ''.join(rnd.choice('ab:"\\ {}\n\t,') for _ in range(rnd.randrange(0, 12)))
        obj[key] = rnd.choice([1, "v", {"n": [1, {"q": "r"}]}, [], {}, None, "a\": \"b", ["x: y", "\"k\": 1"]])
    pp_inputs.append(json.dumps(obj, indent=rnd.choice([4, 2, 1])))
for i, s in enumerate(pp_inputs):
    for sp in (34, 29, 0, 5, 100, -3):
        rec("prettyPrint %d %d" % (i, sp), call(pt.prettyPrint, s, sp))
    rec("prettyPrint %d default" % i, call(pt.prettyPrint, s))
    rec("prettyPrint %d kw" % i, call(pt.prettyPrint, Mdata=s, desiredSpace=12))

secnames = ["User Data", "Extended User Data", "Primary SRC", "Private Header", "User Header", "X", "X 0", "User Data 1", ""]
for i in range(150):
    n = rnd.randrange(0, 9)
    sections = [OrderedDict([(rnd.choice(secnames), {"i": j})]) for j in range(n)]
    if i % 10 == 0 and sections:
        sections.append(sections[0])
    out = OrderedDict()
    if i % 3 == 0:
        out["Private Header"] = "ph"; out["User Header"] = "uh"
    if i % 7 == 0:
        out["User Data 1"] = "pre"; out["X"] = "prex"
    r = call(pt.buildOutput, sections, out)
    rec("buildOutput %d" % i, [r, norm(out)])
rec("buildOutput empty-section", call(pt.buildOutput, [OrderedDict()], OrderedDict()))
rec("buildOutput multi-key", (lambda o: [call(pt.buildOutput, [OrderedDict([("a", 1), ("b", 2)]), {"a": 3}], o), norm(o)])(OrderedDict()))
rec("buildOutput tuple", (lambda o: [call(pt.buildOutput, ({"a": 1}, {"a": 2}, {"b": 3}), o), norm(o)])({}))

for s in ["50000001", "0x50000001", "0X5000000a", "abcdefgh", "0xabcdefgh", "", "0x", "1234567", "123456789",
          "0x0x1234", "0x123456", "  500000", "5000 001", "0x50000001 ", "ｘ5000000", "ß5000000", "ǰ500000"]:
    rec("processId %r" % s, call(pt.processId, s))
rec("processId None", call(pt.processId, None))

# ---- considerPEL --------------------------------------------------------
uhs = []
for sev in (0x00, 0x10, 0x20, 0x40, 0x51, 0x50, 0x61, 0x71):
    for fl in (0x0000, 0x2000, 0x4000, 0x8000, 0x6000, 0xA000, 0xC000, 0xE000):
        u = UserHeader(None, 0, 0, 0, 0, 0, 'O')
        u.eventSeverity = sev
        u.actionFlags = fl
        uhs.append(u)
sevlists = [[], [4], [0, 1], [2, 5, 6, 7], [5]]
idsets = [{}, {"plid": "50000001"}, {"src": "BD"}, {"bmcID": "12"}, {"pelID": "50000001"}, {"src": ""}]
for bits in itertools.product([False, True], repeat=6):
    for sl in sevlists:
        for ids in idsets:
            cfg = mkcfg(serviceable=bits[0], non_serviceable=bits[1], every_pel=bits[2],
                        critSysTerm=bits[3], hidden=bits[4], only=bits[5], severities=list(sl), **ids)
            row = []
            for u in uhs:
                v = pt.considerPEL(u, cfg)
                w = pt.considerPELIfSeverityMatches(u, cfg)
                row.append(repr(v)[0] + repr(w)[0] + (type(v).__name__[0]) + (type(w).__name__[0]))
            rec("considerPEL %r %r %r" % (bits, sl, sorted(ids.items())), ''.join(row))
rec("considerPEL bad-uh", call(pt.considerPEL, None, Config()))
rec("considerPEL bad-cfg", call(pt.considerPEL, uhs[0], None))
rec("considerPEL every bad-uh", call(pt.considerPEL, None, mkcfg(every_pel=True)))
rec("sevmatch gen", call(pt.considerPELIfSeverityMatches, uhs[20], mkcfg(severities=(x for x in [9, 4, 2]))))
rec("sevmatch none", call(pt.considerPELIfSeverityMatches, uhs[20], mkcfg(severities=None)))

# ---- parseHeader / generate* / sectionFun -------------------------------
some = blobs["2023040506070809_5000AAAA"]
for n in range(0, 12):
    s = stream_of(some[:n])
    r = call(pt.parseHeader, s)
    if "ret" in r:
        r["ret"] = list(r["ret"]["__tuple"])
        r["idx"] = s.index
    rec("parseHeader %d" % n, r)
s = DataStream(some[:8], byte_order='little', is_signed=True)
r = call(pt.parseHeader, s)
if "ret" in r:
    r["ret"] = list(r["ret"]["__tuple"])
rec("parseHeader little", r)

def gen_result(r):
    if "ret" in r and "__tuple" in r["ret"]:
        t = r["ret"]["__tuple"]
        r["ret"] = [t[0], t[1]]
    return r

for name in files:
    data = blobs[name]
    s = stream_of(data); out = OrderedDict()
    r = gen_result(call(pt.generatePH, s, out))
    rec("generatePH " + name, [r, norm(out), s.index])
    if "ret" in r and r["ret"][0] == {"__v": "True"}:
        r2 = gen_result(call(pt.generateUH, s, 'O', out))
        rec("generateUH " + name, [r2, norm(out), s.index])
    # walk every section with sectionFun, both plugin settings
    for plugins in (True, False):
        s = stream_of(data)
        trace = []
        for k in range(12):
            h = call(pt.parseHeader, s)
            if "ret" not in h:
                trace.append(h); break
            hv = list(h["ret"]["__tuple"])
            o = OrderedDict()
            cfg = mkcfg(allow_plugins=plugins)
            r = call(pt.sectionFun, s, o, hv[0], hv[1], hv[2], hv[3], hv[4], 'O', cfg)
            trace.append([hv, r, norm(o), s.index])
            if "ret" not in r:
                break
        rec("sectionFun walk %s %s" % (name, plugins), trace)

# direct calls of each generate* function on one section body
def body_after_header(data, wanted):
    s = stream_of(data)
    try:
        while True:
            h = tuple(pt.parseHeader(s))
            if h[0] == wanted:
                return s, h
            s.get_mem(h[1] - 8)
    except Exception:
        return None, None

big = blobs["2023040506070809_5000AAAA"]
gens = [
    ("generateSRC", 0x5053, lambda s, o, h, cfg: pt.generateSRC(s, o, h[0], h[1], h[2], h[3], h[4], 'O', cfg)),
    ("generateEH", 0x4548, lambda s, o, h, cfg: pt.generateEH(s, o, h[0], h[1], h[2], h[3], h[4], 'O')),
    ("generateMT", 0x4D54, lambda s, o, h, cfg: pt.generateMT(s, o, h[0], h[1], h[2], h[3], h[4], 'O')),
    ("generateED", 0x4544, lambda s, o, h, cfg: pt.generateED(s, o, h[0], h[1], h[2], h[3], h[4], cfg)),
    ("generateUD", 0x5544, lambda s, o, h, cfg: pt.generateUD(s, o, h[0], h[1], h[2], h[3], h[4], 'O', cfg)),
    ("generateIP", 0x4C50, lambda s, o, h, cfg: pt.generateIP(s, o, h[0], h[1], h[2], h[3], h[4], 'O')),
    ("generateDefault", 0x4448, lambda s, o, h, cfg: pt.generateDefault(s, o, h[0], h[1], h[2], h[3], h[4])),
]
for gname, sid, fn in gens:
    for plugins in (True, False):
        s, h = body_after_header(big, sid)
        o = OrderedDict()
        r = gen_result(call(fn, s, o, h, mkcfg(allow_plugins=plugins)))
        rec("%s %s" % (gname, plugins), [r, norm(o), s.index])
    # keyword call & short input
    s, h = body_after_header(big, sid)
    short = stream_of(bytes(s.data[s.index:s.index + 5]))
    o = OrderedDict()
    rec("%s short" % gname, [gen_result(call(fn, short, o, h, Config())), norm(o), short.index])
s, h = body_after_header(big, 0x4D54)
o = OrderedDict()
rec("generateMT kw", [gen_result(call(pt.generateMT, stream=s, out=o, sectionID=h[0], sectionLen=h[1], versionID=h[2],
                                      subType=h[3], componentID=h[4], creatorID='B')), norm(o)])
s, h = body_after_header(big, 0x5053)
o = OrderedDict()
rec("sectionFun kw", [call(pt.sectionFun, stream=s, out=o, sectionID=h[0], sectionLen=h[1], versionID=h[2],
                           subType=h[3], componentID=h[4], creatorID='O', config=Config()), norm(o)])

# ---- parsePEL / parsePELSummary over the whole corpus -------------------
cfgs = [
    ("default", {}), ("every", {"every_pel": True}), ("every-noplug", {"every_pel": True, "allow_plugins": False}),
    ("hidden-only", {"hidden": True, "only": True}), ("sev", {"severities": [4, 5], "only": True}),
    ("nonserv", {"non_serviceable": True}), ("term", {"critSysTerm": True, "only": True}),
    ("plid", {"plid": "5"}), ("hex", {"hex": True, "every_pel": True}),
]
for name in files:
    data = blobs[name]
    for cname, kw in cfgs:
        for eoe in (False, True):
            s = stream_of(data)
            r = call(pt.parsePEL, s, mkcfg(**kw), eoe)
            r["idx"] = s.index
            rec("parsePEL %s %s %s" % (name, cname, eoe), r)
        s = stream_of(data)
        r = call(pt.parsePELSummary, s, mkcfg(**kw))
        r["idx"] = s.index
        rec("parsePELSummary %s %s" % (name, cname), r)
        rec("extractAndSummarizePEL %s %s" % (name, cname),
            call(pt.extractAndSummarizePEL, os.path.join(logs, name), mkcfg(**kw)))
        for eoe in (False, True):
            rec("parseAndPrintPELFile %s %s %s" % (name, cname, eoe),
                call(pt.parseAndPrintPELFile, os.path.join(logs, name), mkcfg(**kw), eoe))
    rec("printPELInHexFormat " + name, call(pt.printPELInHexFormat, data))
rec("parsePEL kw", call(pt.parsePEL, stream=stream_of(big), config=Config(), exit_on_error=False))
rec("parsePELSummary kw", call(pt.parsePELSummary, stream=stream_of(big), config=Config()))
rec("parseAndPrintPELFile missing", call(pt.parseAndPrintPELFile, os.path.join(logs, "nope"), Config(), True))
rec("parseAndPrintPELFile dir", call(pt.parseAndPrintPELFile, logs, Config(), False))
rec("extractAndSummarizePEL missing", call(pt.extractAndSummarizePEL, os.path.join(logs, "nope"), Config()))
rec("printPELInHexFormat bytearray", call(pt.printPELInHexFormat, bytearray(b'abc' * 11)))
rec("printPELInHexFormat mv", call(pt.printPELInHexFormat, memoryview(b'abc' * 11)))
rec("printPELInHexFormat str", call(pt.printPELInHexFormat, "text"))
rec("printPELInHexFormat none", call(pt.printPELInHexFormat, None))
rec("printPELInHexFormat empty", call(pt.printPELInHexFormat, b''))

# repeated decodes of the same data in one process
for i in range(3):
    rec("repeat %d" % i, [call(pt.parsePEL, stream_of(big), Config(), False),
                          call(pt.parsePELSummary, stream_of(big), Config())])

# ---- directory level functions ------------------------------------------
def dircase(label, fn):
    D, W, E, O = fresh()
    r = fn(D, W, E, O)
    rec(label, [r, snap(work)])

for ext in (None, "", ".pel", ".txt", "pel", ".json"):
    for rev in (False, True):
        dircase("getFileList %r %r" % (ext, rev), lambda D, W, E, O: call(pt.getFileList, D, ext, rev))
dircase("getFileList default", lambda D, W, E, O: call(pt.getFileList, D, None))
dircase("getFileList kw", lambda D, W, E, O: call(pt.getFileList, path=D, extension=".pel", rev=True))
dircase("getFileList missing", lambda D, W, E, O: call(pt.getFileList, D + "/nope", None))
dircase("getFileList file", lambda D, W, E, O: call(pt.getFileList, D + "/notes.txt", None))
dircase("getFileList empty", lambda D, W, E, O: call(pt.getFileList, E, ".pel", True))
dircase("getFileList weird", lambda D, W, E, O: call(pt.getFileList, W, None))

dir_cfgs = [
    ("default", {}), ("every", {"every_pel": True}), ("every-rev", {"every_pel": True, "rev": True}),
    ("pel-ext", {"extension": ".pel", "every_pel": True}), ("hex", {"hex": True}),
    ("hex-every-rev", {"hex": True, "every_pel": True, "rev": True}), ("hidden-only", {"hidden": True, "only": True}),
    ("noplug", {"allow_plugins": False, "every_pel": True}), ("sev", {"severities": [0, 1]}),
]
for cname, kw in dir_cfgs:
    for fname in ("listOption", "extractAllPELsData", "printPELCount"):
        dircase("%s %s" % (fname, cname), lambda D, W, E, O: call(getattr(pt, fname), D, mkcfg(**kw)))
        dircase("%s %s weird" % (fname, cname), lambda D, W, E, O: call(getattr(pt, fname), W, mkcfg(**kw)))
    dircase("listOption %s empty" % cname, lambda D, W, E, O: call(pt.listOption, E, mkcfg(**kw)))
    dircase("extractAllPELsData %s empty" % cname, lambda D, W, E, O: call(pt.extractAllPELsData, E, mkcfg(**kw)))
    dircase("printPELCount %s missing" % cname, lambda D, W, E, O: call(pt.printPELCount, D + "/nope", mkcfg(**kw)))
    for pid in ("5000AAAA", "0x5000aaab", "5FFFFFFF", "500", "50003000", "5000400F", "50000004"):
        dircase("parsePelFromID %s %s" % (cname, pid),
                lambda D, W, E, O: call(pt.parsePelFromID, D, mkcfg(pelID=pid, **kw)))
    for bid in ("4242", "4243", "4244", "0", "104", "117", "x", ""):
        dircase("parsePelFromBmcID %s %s" % (cname, bid),
                lambda D, W, E, O: call(pt.parsePelFromBmcID, D, mkcfg(bmcID=bid, **kw)))
    for plid in ("5000AAAA", "0x5000aaaa", "50000003", "5FFFFFFF", "5000"):
        dircase("parsePelFromPLID %s %s" % (cname, plid),
                lambda D, W, E, O: call(pt.parsePelFromPLID, D, mkcfg(plid=plid, **kw)))
    for src, excl in (("BD8D", None), ("BD", None), ("1100", None), ("X" * 33, None), ("", None), (None, None),
                      (None, "exclude.txt"), (None, "exclude_none.txt"), ("BD", "exclude.txt"),
                      ("BD8D2000", "exclude_none.txt"), (None, "missing.txt"), (None, "exclude_bin.txt")):
        dircase("parsePelFromSRCID %s %r %r" % (cname, src, excl),
                lambda D, W, E, O: call(pt.parsePelFromSRCID, D, mkcfg(
                    src=src, srcExcludeFile=(os.path.join(corpus, excl) if excl else None), **kw)))
dircase("parsePelFromID weird", lambda D, W, E, O: call(pt.parsePelFromID, W, mkcfg(pelID="5000CCCC")))
dircase("parsePelFromBmcID weird", lambda D, W, E, O: call(pt.parsePelFromBmcID, W, mkcfg(bmcID="103")))
dircase("parsePelFromPLID weird", lambda D, W, E, O: call(pt.parsePelFromPLID, W, mkcfg(plid="50000000")))
dircase("parsePelFromSRCID weird", lambda D, W, E, O: call(pt.parsePelFromSRCID, W, mkcfg(src="B")))
dircase("parsePelFromID missing", lambda D, W, E, O: call(pt.parsePelFromID, D + "/nope", mkcfg(pelID="5000AAAA")))
dircase("parsePelFromBmcID missing", lambda D, W, E, O: call(pt.parsePelFromBmcID, D + "/nope", mkcfg(bmcID="1")))
dircase("parsePelFromID None", lambda D, W, E, O: call(pt.parsePelFromID, D, Config()))
dircase("parsePelFromPLID None", lambda D, W, E, O: call(pt.parsePelFromPLID, D, Config()))

for pid in ("5000AAAA", "0x5000aaab", "5FFFFFFF", "500", "50001000", "5000", "NOTES.TX", "5000CCCC"):
    dircase("deletePELFromPELId " + pid, lambda D, W, E, O: call(pt.deletePELFromPELId, D, pid))
    dircase("deletePELFromPELId weird " + pid, lambda D, W, E, O: call(pt.deletePELFromPELId, W, pid))
dircase("deletePELFromPELId missing", lambda D, W, E, O: call(pt.deletePELFromPELId, D + "/nope", "5000AAAA"))
dircase("deleteAllPELs", lambda D, W, E, O: call(pt.deleteAllPELs, D))
dircase("deleteAllPELs weird", lambda D, W, E, O: call(pt.deleteAllPELs, W))
dircase("deleteAllPELs empty", lambda D, W, E, O: call(pt.deleteAllPELs, E))
dircase("deleteAllPELs missing", lambda D, W, E, O: call(pt.deleteAllPELs, D + "/nope"))
dircase("deleteAllPELs file", lambda D, W, E, O: call(pt.deleteAllPELs, D + "/notes.txt"))

for name in files:
    for cname, kw in (("default", {}), ("every", {"every_pel": True})):
        for delete in (False, True):
            dircase("parseAndWriteOutput %s %s %s" % (name, cname, delete),
                    lambda D, W, E, O: call(pt.parseAndWriteOutput, os.path.join(D, name), O, mkcfg(**kw), delete))
dircase("parseAndWriteOutput same-dir", lambda D, W, E, O: call(
    pt.parseAndWriteOutput, os.path.join(D, "2023040506070809_5000AAAA"), D, Config(), True))
dircase("parseAndWriteOutput no-outdir", lambda D, W, E, O: call(
    pt.parseAndWriteOutput, os.path.join(D, "2023040506070809_5000AAAA"), O + "/nope", Config(), True))
dircase("parseAndWriteOutput missing", lambda D, W, E, O: call(
    pt.parseAndWriteOutput, os.path.join(D, "nope"), O, Config(), True))
dircase("parseAndWriteOutput dangling", lambda D, W, E, O: call(
    pt.parseAndWriteOutput, os.path.join(W, "b_dangling_5000CCCC"), O, Config(), True))
dircase("parseAndWriteOutput kw", lambda D, W, E, O: call(
    pt.parseAndWriteOutput, file=os.path.join(D, "2023040506070809_5000AAAA"), output_dir=O, config=Config(),
    delete_after_parsing=False))

# ---- main() in process ---------------------------------------------------
with open(casefile) as f:
    allcases = json.load(f)

def subst(argv, D, W, E, O):
    return [a.replace('{D}', D).replace('{W}', W).replace('{E}', E).replace('{O}', O).replace('{C}', corpus)
            for a in argv]

def run_main(argv):
    old = sys.argv
    sys.argv = ['peltool.py'] + argv
    try:
        return call(pt.main)
    finally:
        sys.argv = old

for argv in allcases["cli"]:
    D, W, E, O = fresh()
    r = run_main(subst(argv, D, W, E, O))
    rec("main %r" % (argv,), [r, snap(work)])

# simulated BMC environment
LOGS = "/var/lib/phosphor-logging/extensions/pels/logs/"
ARCH = "/var/lib/phosphor-logging/extensions/pels/logs/archive"
real_isdir, real_walk = os.path.isdir, os.walk
state = {}
def fake_isdir(p):
    if p == LOGS:
        return True
    return real_isdir(p)
def fake_walk(p, *a, **k):
    if p == LOGS:
        p = state["D"]
    elif p == ARCH:
        p = os.path.join(state["D"], "archive")
    return real_walk(p, *a, **k)
for argv in allcases["bmc"]:
    D, W, E, O = fresh()
    state["D"] = D
    os.path.isdir, os.walk = fake_isdir, fake_walk
    try:
        r = run_main(subst(argv, D, W, E, O))
    finally:
        os.path.isdir, os.walk = real_isdir, real_walk
    rec("bmc-main %r" % (argv,), [r, snap(work)])

rec("CustomFormatter", [pt.CustomFormatter.__mro__[1].__name__, pt.CustomFormatter.__doc__])

with open(outfile, 'w') as f:
    f.write('\n'.join(records) + '\n')
print("RECORDS %d" % len(records))
'''


# --------------------------------------------------------------------------

TB_RE = re.compile(r'^Traceback \(most recent call last\):\n(?:[ \t]+.*\n)*', re.M)


def norm_stderr(text, root):
    text = text.replace(root, '<ROOT>')
    return TB_RE.sub('Traceback <...>\n', text)


def snapshot(top):
    out = []
    for root, ds, fs in os.walk(top):
        ds.sort()
        for n in sorted(ds + fs):
            p = os.path.join(root, n)
            rel = os.path.relpath(p, top)
            if os.path.islink(p):
                out.append((rel, 'link'))
            elif os.path.isdir(p):
                out.append((rel, 'dir'))
            else:
                with open(p, 'rb') as f:
                    out.append((rel, hashlib.sha1(f.read()).hexdigest()))
    return out


CLEAN = {}


def fresh_work(corpus, work):
    D = os.path.join(work, 'logs')
    W = os.path.join(work, 'weird')
    E = os.path.join(work, 'emptydir')
    O = os.path.join(work, 'out')
    if CLEAN.get(work) is not None and os.path.isdir(work) and snapshot(work) == CLEAN[work]:
        return D, W, E, O
    if os.path.lexists(work):
        shutil.rmtree(work)
    os.makedirs(work)
    shutil.copytree(os.path.join(corpus, 'logs'), D, symlinks=True)
    shutil.copytree(os.path.join(corpus, 'weird'), W, symlinks=True)
    os.makedirs(E)
    os.makedirs(O)
    CLEAN[work] = snapshot(work)
    return D, W, E, O


def env_for(root):
    env = dict(os.environ)
    env['PYTHONPATH'] = os.path.join(root, 'modules')
    env['PYTHONDONTWRITEBYTECODE'] = '1'
    env['PYTHONHASHSEED'] = '0'
    env.pop('PYTHONOPTIMIZE', None)
    return env


def run_driver(root, tmp, corpus, tag, optimize):
    work = os.path.join(tmp, 'work' + tag[1:])
    outfile = os.path.join(tmp, 'records_%s.jsonl' % tag)
    driver = os.path.join(tmp, 'driver.py')
    cmd = [PY] + (['-O'] if optimize else []) + [driver, corpus, work, outfile, os.path.join(tmp, 'cases.json')]
    p = subprocess.run(cmd, env=env_for(root), stdout=subprocess.PIPE, stderr=subprocess.PIPE, cwd=tmp)
    so = p.stdout.decode()
    if p.returncode != 0 or 'RECORDS' not in so:
        sys.stderr.write("driver failed for %s (%s):\n%s\n%s\n" % (root, tag, so, p.stderr.decode()))
        sys.exit(2)
    want = os.path.join(os.path.realpath(root), 'modules', 'pel', 'peltool')
    for line in so.splitlines():
        if line.startswith(('ROOT ', 'CFG ')):
            got = os.path.dirname(os.path.realpath(line.split(' ', 1)[1]))
            if got != want:
                sys.stderr.write("driver imported %s instead of %s\n" % (got, want))
                sys.exit(2)
    with open(outfile) as f:
        return f.read().splitlines()


def run_cli(root, tmp, corpus, argv, optimize):
    work = os.path.join(tmp, 'workC')
    D, W, E, O = fresh_work(corpus, work)
    args = [a.replace('{D}', D).replace('{W}', W).replace('{E}', E).replace('{O}', O).replace('{C}', corpus)
            for a in argv]
    # the script is started through a symlink with a fixed path so that the
    # program name in usage/help texts does not depend on the tree
    link = os.path.join(tmp, 'peltool.py')
    if os.path.lexists(link):
        os.unlink(link)
    os.symlink(os.path.join(root, 'modules', 'pel', 'peltool', 'peltool.py'), link)
    cmd = [PY] + (['-O'] if optimize else []) + [link] + args
    p = subprocess.run(cmd, env=env_for(root), stdout=subprocess.PIPE, stderr=subprocess.PIPE, cwd=work,
                       stdin=subprocess.DEVNULL)
    return (p.returncode, p.stdout, norm_stderr(p.stderr.decode('utf-8', 'replace'), os.path.realpath(root)),
            snapshot(work))


def main():
    if len(sys.argv) != 3:
        sys.exit(__doc__)
    pristine, patched = [os.path.abspath(a) for a in sys.argv[1:3]]
    tmp = tempfile.mkdtemp(prefix='dc_', dir=HERE)
    ncases = 0
    diffs = []
    try:
        corpus = os.path.join(tmp, 'corpus')
        os.makedirs(corpus)
        build_corpus(corpus)
        with open(os.path.join(tmp, 'driver.py'), 'w') as f:
            f.write(DRIVER)
        cli = cli_cases()
        with open(os.path.join(tmp, 'cases.json'), 'w') as f:
            json.dump({"cli": cli, "bmc": bmc_cases()}, f)

        # three independent lanes (each with its own work directory, shared by
        # the pristine and the patched run of that lane) run concurrently
        import threading
        results = {}

        def lane_driver(optimize):
            # 1. in-process driver, normal and -O
            tag = 'O' if optimize else 'N'
            n, d = 0, []
            a = run_driver(pristine, tmp, corpus, 'a' + tag, optimize)
            b = run_driver(patched, tmp, corpus, 'b' + tag, optimize)
            if len(a) != len(b):
                d.append("driver%s: record count %d != %d" % (tag, len(a), len(b)))
            for x, y in zip(a, b):
                n += 1
                if x != y:
                    d.append("driver%s: %s\n   pristine: %s\n   patched:  %s" % (
                        tag, json.loads(x)[0], x[:1500], y[:1500]))
            results[tag] = (n, d)

        def lane_cli():
            # 2. the real command line
            n, d = 0, []
            for i, argv in enumerate(cli):
                for optimize in ((False, True) if i % 6 == 0 else (False,)):
                    ra = run_cli(pristine, tmp, corpus, argv, optimize)
                    rb = run_cli(patched, tmp, corpus, argv, optimize)
                    n += 1
                    if ra != rb:
                        for what, x, y in zip(('exit', 'stdout', 'stderr', 'files'), ra, rb):
                            if x != y:
                                d.append("cli%s %r: %s differs\n   pristine: %r\n   patched:  %r" % (
                                    ' -O' if optimize else '', argv, what, x if what != 'stdout' else x[:800],
                                    y if what != 'stdout' else y[:800]))
            results['C'] = (n, d)

        def guarded(fn, *a):
            def run():
                try:
                    fn(*a)
                except BaseException as e:   # includes SystemExit of run_driver
                    results[repr((fn.__name__, a))] = (0, ["lane failed: %r" % (e,)])
            return run

        threads = [threading.Thread(target=guarded(lane_driver, False)),
                   threading.Thread(target=guarded(lane_driver, True)),
                   threading.Thread(target=guarded(lane_cli))]
        for t in threads:
            t.start()
        for t in threads:
            t.join()
        if not all(k in results for k in ('N', 'O', 'C')):
            diffs.append("a lane did not finish")
        for k in sorted(results):
            ncases += results[k][0]
            diffs.extend(results[k][1])
    finally:
        if os.environ.get('DIFFCHECK_KEEP'):
            print("kept " + tmp)
        else:
            shutil.rmtree(tmp, ignore_errors=True)

    if diffs:
        for d in diffs[:40]:
            print(d)
        print("DIFFERENT (%d of %d cases differ)" % (len(diffs), ncases))
        sys.exit(1)
    print("IDENTICAL (%d cases)" % ncases)
    sys.exit(0)


if __name__ == '__main__':
    main()
