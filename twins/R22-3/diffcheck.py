#!/usr/bin/env python
"""
Differential check for refactorings of modules/pel/peltool/{src,registry,
comp_id,pel_values,pel_types}.py.

usage: diffcheck.py <pristine_root> <patched_root>

A few thousand inputs (well-formed PELs, truncated PELs, corrupted PELs,
random bytes, raw SRC/callout sub-structures, synthetic message registries,
component-id tables, plugin modules that misbehave in various ways) are
generated here with a fixed seed.  A driver script is then executed in
subprocesses - once per source tree and per environment (with/without a
pel_registry package, broken registry, BMC-like layout, python -O) - and the
recorded stdout / stderr / return values / exceptions are compared case by
case.  In addition the real CLI is run on a directory of generated PEL files
with several option combinations.

Prints "IDENTICAL (<n> cases)" and exits 0 when no difference was found,
exits 1 otherwise.
"""
import json
import os
import random
import shutil
import struct
import subprocess
import sys
import tempfile

PY = sys.executable

# --------------------------------------------------------------------------
# binary builders
# --------------------------------------------------------------------------


def sec_hdr(sid, length, ver=1, sub=0, comp=0x2000):
    return struct.pack(">HHBBH", sid & 0xFFFF, length & 0xFFFF, ver & 0xFF,
                       sub & 0xFF, comp & 0xFFFF)


def private_header(creator=b'O', count=3, comp=0x2000, eid=0x50000001,
                   plid=0x50000001, obmc=77, sid=0x5048):
    ts = bytes.fromhex("2024031218402755")
    body = ts + ts + creator + b'\x00\x00' + bytes([count & 0xFF]) + \
        struct.pack(">I", obmc) + struct.pack(">Q", 0x4f50323000000000) + \
        struct.pack(">II", plid, eid)
    return sec_hdr(sid, 8 + len(body), 1, 0, comp) + body


def user_header(sev=0x40, action=0xA000, comp=0x2000, sid=0x5548,
                subsystem=0x8D, scope=3, etype=0, states=0x00000102):
    body = bytes([subsystem, scope, sev, etype]) + b'\0\0\0\0' + \
        bytes([1, 2]) + struct.pack(">H", action) + struct.pack(">I", states)
    return sec_hdr(sid, 8 + len(body), 1, 0, comp) + body


def pad(b, n):
    return (b + b'\0' * n)[:n]


def fru_identity(flags, pn=b'', ccin=b'', sn=b'', size=None):
    body = b''
    if flags & 0x08 or flags & 0x02:
        body += pad(pn, 8)
    if flags & 0x04:
        body += pad(ccin, 4)
    if flags & 0x01:
        body += pad(sn, 12)
    total = 4 + len(body)
    return b'ID' + bytes([total if size is None else size, flags]) + body


def pce_identity(mtm=b'9105-22A', sn=b'SN1234567', name=b'pcename', size=None,
                 flags=0):
    body = pad(mtm, 8) + pad(sn, 12) + name
    total = 4 + len(body)
    return b'PE' + bytes([(total if size is None else size) & 0xFF, flags]) \
        + body


def mru(ids, flags=None, size=None):
    body = b'\0\0\0\0'
    for prio, ident in ids:
        body += struct.pack(">II", prio, ident)
    total = 4 + len(body)
    return b'MR' + bytes([(total if size is None else size) & 0xFF,
                          (len(ids) if flags is None else flags) & 0xFF]) \
        + body


def callout(parts, loc=b'U78DA.ND1.1234567-P0', prio=0x48, size=None,
            flags=0, locsize=None):
    if loc:
        while len(loc) % 4:
            loc += b'\0'
    body = b''.join(parts)
    total = 4 + len(loc) + len(body)
    return bytes([(total if size is None else size) & 0xFF, flags, prio,
                  (len(loc) if locsize is None else locsize) & 0xFF]) + loc \
        + body


def callout_section(callouts, wordlen=None):
    body = b''.join(callouts)
    total = 4 + len(body)
    return bytes([0xC0, 0]) + struct.pack(
        ">H", (total // 4 if wordlen is None else wordlen) & 0xFFFF) + body


def src_body(ascii_str=b'BD8D2030', flags=0, wordcount=9, words=None,
             callouts=None, version=2):
    if words is None:
        words = [0x020000F0, 0x2B270000, 0, 0x03000000, 0x11, 0x22, 0x33, 0x44]
    body = bytes([version, flags, 0, wordcount & 0xFF]) + b'\0\0' + \
        struct.pack(">H", 72)
    for w in words[:8]:
        body += struct.pack(">I", w & 0xFFFFFFFF)
    body += pad(ascii_str + b' ' * 32, 32)
    if callouts is not None:
        body += callouts
    return body


def section(sid, body, ver=1, sub=1, comp=0x2000):
    return sec_hdr(sid, 8 + len(body), ver, sub, comp) + body


def make_pel(creator=b'O', src=None, extra=(), comp=0x2000, sev=0x40,
             action=0xA000, count=None, eid=0x50000001):
    secs = []
    if src is not None:
        secs.append(section(0x5053, src, comp=comp))
    secs.extend(extra)
    n = 2 + len(secs) if count is None else count
    return private_header(creator, n, comp, eid=eid, plid=eid) + \
        user_header(sev, action, comp) + b''.join(secs)


REASONS = [b'2030', b'2031', b'2032', b'2033', b'2034', b'2035', b'2036',
           b'2037', b'2038', b'2039', b'203A', b'FFFF', b'0000', b'E500']
SRCTYPES = [b'BD', b'BD', b'BD', b'11', b'BC', b'B7', b'  ', b'bd']
CREATORS = b'OOOBHQRWVUYZTXMC'
PROCS = [b'BMC0001', b'BMC0002', b'BMC0008', b'XYZ', b'', b'BMC0003\0']


def rand_callout(rng):
    parts = []
    kinds = rng.sample(['fru', 'pce', 'mru'], rng.randint(0, 3))
    if rng.random() < 0.7 and 'fru' not in kinds:
        kinds.insert(0, 'fru')
    for k in kinds:
        if k == 'fru':
            flags = rng.choice([0x10, 0x20, 0x30, 0x40, 0x90, 0xA0, 0xB0,
                                0xC0, 0xE0, 0x00, 0x50]) | rng.randint(0, 15)
            pn = rng.choice(PROCS + [b'01AB234', b'PN\0\0'])
            parts.append(fru_identity(flags, pn, rng.choice([b'2E33', b'', b'A']),
                                      rng.choice([b'YL10JJ123456', b'', b'S1'])))
        elif k == 'pce':
            parts.append(pce_identity(
                rng.choice([b'9105-22A', b'', b'X']),
                rng.choice([b'SN1234567', b'']),
                rng.choice([b'', b'pce0', b'name\0\0\0\0']),
                size=rng.choice([None, None, None, 10, 0, 24, 23])))
        else:
            n = rng.randint(0, 4)
            parts.append(mru([(rng.randint(0, 255), rng.getrandbits(32))
                              for _ in range(n)],
                             flags=rng.choice([None, None, n | 0x30, n + 1])))
    if rng.random() < 0.1:
        parts.append(bytes([rng.randint(0, 255) for _ in range(4)]))
    return callout(parts,
                   loc=rng.choice([b'U78DA.ND1.1234567-P0', b'', b'Ufcs-P0-C1',
                                   b'\0\0\0\0']),
                   prio=rng.choice([0x48, 0x4D, 0x41, 0x42, 0x43, 0x4C, 0x00]),
                   size=rng.choice([None, None, None, None, 4, 0, 200]))


def rand_src(rng):
    asc = rng.choice(SRCTYPES) + rng.choice([b'8D', b'E5', b'00', b'70']) + \
        rng.choice(REASONS)
    if rng.random() < 0.1:
        asc = bytes(rng.randint(32, 126) for _ in range(rng.randint(0, 32)))
    if rng.random() < 0.03:
        asc = b'BD8D20\xff\xfe'
    flags = rng.choice([0, 1, 1, 1, 0x81, 0x11, 0x05, 0xFF, 0x80, 0x14])
    wc = rng.choice([9, 9, 9, 9, 9, 0, 1, 2, 5, 8, 10, 12])
    words = [rng.getrandbits(32) for _ in range(8)]
    if rng.random() < 0.5:
        words[3] = rng.choice([0, 0x20000000, 0x02000000, 0x01000000,
                               0x23000000])
    co = None
    if flags & 1 or rng.random() < 0.2:
        n = rng.randint(0, 4)
        co = callout_section([rand_callout(rng) for _ in range(n)],
                             wordlen=rng.choice([None, None, None, 1, 0, 3]))
    return src_body(asc, flags, wc, words, co, version=rng.choice([2, 2, 1]))


def rand_pel(rng, eid):
    creator = bytes([rng.choice(CREATORS)])
    comp = rng.choice([0x2000, 0xE500, 0x1000, 0x3100, 0x4142, 0x4100, 0xBEEF,
                       0x0000, 0xAB00])
    extra = []
    for _ in range(rng.randint(0, 2)):
        kind = rng.random()
        if kind < 0.4:
            extra.append(section(0x5353, rand_src(rng), comp=comp))
        elif kind < 0.7:
            extra.append(section(0x4D54, pad(b'9105-22A', 8) +
                                 pad(b'SN0001', 12), comp=comp))
        else:
            extra.append(section(0x4348, bytes(rng.randint(0, 255)
                                               for _ in range(12)),
                                 comp=comp))
    sev = rng.choice([0x40, 0x00, 0x10, 0x20, 0x51, 0x71])
    action = rng.choice([0xA000, 0x4000, 0x2000, 0x8000, 0x0000, 0xE000])
    return make_pel(creator, rand_src(rng), extra, comp, sev, action, eid=eid)


# --------------------------------------------------------------------------
# synthetic registries / component id files
# --------------------------------------------------------------------------

GOOD_REGISTRY = {"PELs": [
    {"Name": "no.reason", "SRC": {"Type": "BD"},
     "Documentation": {"Message": "never"}},
    {"Name": "a", "SRC": {"ReasonCode": "0x2030"},
     "Documentation": {"Message": "Plain message for 2030"}},
    {"Name": "b", "SRC": {"ReasonCode": "0x2031", "Type": "BD",
                          "Words6To9": {
                              "6": {"Description": "Word six",
                                    "AdditionalDataPropSource": "PROP6"},
                              "7": {"AdditionalDataPropSource": "PROP7"},
                              "9": {"Description": "Word nine",
                                    "AdditionalDataPropSource": "PROP9"}}},
     "Documentation": {"Message": "Args %1 and %2 and %1 again %0 %a",
                       "MessageArgSources": ["SRCWord6", "SRCWord9",
                                             "SRCWord7"]}},
    {"Name": "c", "SRC": {"ReasonCode": "0x2032", "Type": "11",
                          "Words6To9": {}},
     "Documentation": {"Message": "Power %1",
                       "MessageArgSources": ["SRCWord8"]}},
    {"Name": "d", "SRC": {"ReasonCode": "0x2032", "Type": "BC"},
     "Documentation": {"Message": "Hostboot 2032"}},
    {"Name": "e", "SRC": {"ReasonCode": "0x2033"},
     "Documentation": {"Message": "Braces {oops} %1",
                       "MessageArgSources": ["SRCWord6"]}},
    {"Name": "f", "SRC": {"ReasonCode": "0x2034"},
     "Documentation": {"Message": "Too many %1 %2 %3",
                       "MessageArgSources": ["SRCWord6"]}},
    {"Name": "g", "SRC": {"ReasonCode": "0x2035"},
     "Documentation": {"Message": "Bad arg %1",
                       "MessageArgSources": ["SRCWordX"]}},
    {"Name": "h", "SRC": {"ReasonCode": "0x2036",
                          "Words6To9": {
                              "8": {"Description": "no prop"}}},
     "Documentation": {"Message": "Missing prop"}},
    {"Name": "i", "SRC": {"ReasonCode": "0x2037",
                          "Words6To9": {
                              "six": {"Description": "bad key",
                                      "AdditionalDataPropSource": "P"}}},
     "Documentation": {"Message": "Bad key"}},
    {"Name": "j", "SRC": {"ReasonCode": "0x2038",
                          "Words6To9": {
                              "12": {"Description": "out of range",
                                     "AdditionalDataPropSource": "P"},
                              "6": {"Description": "fine",
                                    "AdditionalDataPropSource": "Q"}}},
     "Documentation": {"Message": ""}},
    {"Name": "k", "SRC": {"ReasonCode": "0x2039"},
     "Documentation": {"Description": "no message key"}},
    {"Name": "l", "SRC": {"ReasonCode": "0x203A", "Type": "BD"},
     "Documentation": {"Message": "Low words %1 %2 %3",
                       "MessageArgSources": ["SRCWord1", "SRCWord0",
                                             "SRCWord2"]}},
    {"Name": "dup", "SRC": {"ReasonCode": "0x2030"},
     "Documentation": {"Message": "Shadowed duplicate"}},
]}

BAD_REGISTRY = {"PELs": [
    {"Name": "a", "SRC": {"ReasonCode": "0x2030", "Type": "BD"},
     "Documentation": {"Message": "first"}},
    {"Name": "nosrc", "Documentation": {"Message": "x"}},
]}

GOOD_COMPIDS = {
    "O_component_ids.json": {"2000": "bmc common", "E500": "hwdiags",
                             "1000": "bmc states", "ab00": "lower key",
                             "AB00": "upper key"},
    "B_component_ids.json": {"3100": "hb thing", "0000": "zero"},
    "M_component_ids.json.bak": {"2000": "from bak file"},
    "N_component_ids.json": None,
    "L_component_ids.json": ["2000", "E500"],
    "_component_ids.json": {"2000": "empty creator"},
    "unrelated.json": {"2000": "never"},
}


def write_pel_registry(root, registry, compids, broken_file=None):
    pkg = os.path.join(root, "pel_registry")
    os.makedirs(pkg)
    with open(os.path.join(pkg, "__init__.py"), "w") as f:
        f.write("import os\n"
                "def get_registry_path():\n"
                "    return os.path.join(os.path.dirname(__file__),"
                " 'message_registry.json')\n")
    with open(os.path.join(pkg, "message_registry.json"), "w") as f:
        json.dump(registry, f)
    for name, content in compids.items():
        with open(os.path.join(pkg, name), "w") as f:
            json.dump(content, f)
    if broken_file:
        with open(os.path.join(pkg, broken_file), "w") as f:
            f.write("{ this is not json")
    return pkg


# --------------------------------------------------------------------------
# case generation
# --------------------------------------------------------------------------

CFGS = [
    {"every_pel": True},
    {"every_pel": True, "allow_plugins": False},
    {},
    {"serviceable": True, "only": True, "severities": [4]},
    {"hidden": True, "allow_plugins": False},
]


def gen_cases():
    rng = random.Random(0xC0FFEE)
    cases = []

    def add(kind, **kw):
        kw["kind"] = kind
        cases.append(kw)

    add("consts")

    # --- well formed PELs --------------------------------------------------
    pels = [rand_pel(rng, 0x50000100 + i) for i in range(260)]
    for i, p in enumerate(pels):
        add("pel", data=p.hex(), cfg=CFGS[i % 2])
        if i % 3 == 0:
            add("pel", data=p.hex(), cfg=CFGS[2 + i % 3])
        if i % 4 == 0:
            add("summary", data=p.hex(), cfg=CFGS[i % 2])

    # a handful of hand made ones hitting specific registry entries with the
    # real 'O' plugins and callouts carrying maintenance procedures
    for reason in REASONS:
        for st in (b'BD', b'11', b'BC', b'B7'):
            co = callout_section([
                callout([fru_identity(0x4A, b'BMC0002')]),
                callout([fru_identity(0x1D, b'01AB234', b'2E33',
                                      b'YL10JJ123456'),
                         pce_identity(), mru([(0x48, 0x10001), (0x4D, 7)])]),
                callout([mru([])], loc=b''),
            ])
            body = src_body(st + b'8D' + reason, 0x01, 9, None, co)
            for creator in (b'O', b'Z', b'H'):
                add("pel", data=make_pel(creator, body).hex(),
                    cfg={"every_pel": True})

    # --- truncations ---------------------------------------------------------
    for p in pels[:5]:
        for n in range(0, len(p), 1):
            add("pel", data=p[:n].hex(), cfg={"every_pel": True})
    for p in pels[5:40]:
        for _ in range(8):
            n = rng.randint(0, len(p))
            add("pel", data=p[:n].hex(), cfg=CFGS[rng.randint(0, 1)])

    # --- corruptions ---------------------------------------------------------
    for _ in range(900):
        p = bytearray(rng.choice(pels))
        for _ in range(rng.randint(1, 4)):
            pos = rng.randint(0, len(p) - 1)
            if rng.random() < 0.7 and len(p) > 130:
                pos = rng.randint(72, min(len(p) - 1, 260))
            p[pos] = rng.choice([0, 0xFF, rng.randint(0, 255), p[pos] ^ 0x01,
                                 p[pos] ^ 0x80])
        add("pel", data=bytes(p).hex(), cfg=CFGS[rng.randint(0, 1)])

    # --- random garbage ------------------------------------------------------
    for _ in range(120):
        n = rng.randint(0, 200)
        add("pel", data=bytes(rng.randint(0, 255) for _ in range(n)).hex(),
            cfg={"every_pel": True})
    for _ in range(120):
        n = rng.randint(0, 200)
        junk = bytes(rng.randint(0, 255) for _ in range(n))
        add("pel", data=(private_header(b'O', rng.randint(0, 6)) +
                         user_header() + junk).hex(), cfg={"every_pel": True})

    # --- raw SRC bodies ------------------------------------------------------
    for i in range(500):
        body = rand_src(rng)
        if i % 3 == 1:
            body = body[:rng.randint(0, len(body))]
        elif i % 3 == 2:
            b = bytearray(body)
            for _ in range(rng.randint(1, 5)):
                b[rng.randint(0, len(b) - 1)] = rng.randint(0, 255)
            body = bytes(b)
        add("src", data=body.hex(), creator=chr(rng.choice(CREATORS)),
            comp=rng.choice([0x2000, 0x4142, 0xE500]),
            plugins=rng.random() < 0.7,
            order=rng.choice(["big", "big", "big", "big", "little", "mv-big"]))

    # --- raw sub-structures --------------------------------------------------
    for i in range(700):
        co = rand_callout(rng)
        if i % 3 == 1:
            co = co[:rng.randint(0, len(co))]
        elif i % 3 == 2:
            b = bytearray(co)
            for _ in range(rng.randint(1, 3)):
                b[rng.randint(0, len(b) - 1)] = rng.randint(0, 255)
            co = bytes(b)
        co += rng.choice([b'', b'ID', b'PE\x05', b'MR\x08\x02', b'\0' * 8])
        add("callout", data=co.hex(),
            order=rng.choice(["big", "big", "big", "little", "mv-big"]))
    for i in range(900):
        tag = rng.choice(["fru", "pce", "mru"])
        n = rng.randint(0, 40)
        raw = bytes(rng.randint(0, 255) for _ in range(n))
        if rng.random() < 0.6:
            # mostly printable payload so that decoding succeeds
            raw = raw[:4] + bytes(rng.choice(b'AB01 \0') for _ in range(n))
        if rng.random() < 0.3 and tag == "pce" and len(raw) > 3:
            raw = raw[:2] + bytes([rng.choice([0, 23, 24, 25, 30])]) + raw[3:]
        add(tag, data=raw.hex(), order=rng.choice(["big", "big", "big", "little", "mv-big"]))
    for _ in range(60):
        n = rng.randint(0, 12)
        add("get_value", data=bytes(rng.randint(0, 255)
                                    for _ in range(n)).hex(),
            start=rng.randint(0, 14), end=rng.randint(0, 5))

    # --- SRC message helpers -------------------------------------------------
    words = [0x11, 0x22222222, 0, 0xFFFFFFFF, 0xA, 0xB, 0xC, 0xD]
    details_list = [
        {},
        {"Message": ""},
        {"Message": "plain"},
        {"Message": "a %1 b %2", "MessageArgSources": ["SRCWord6",
                                                       "SRCWord7"]},
        {"Message": "a %1 b %2", "MessageArgSources": []},
        {"Message": "a %1 %9 %0 %% %10", "MessageArgSources":
         ["SRCWord2", "SRCWord3", "SRCWord4", "SRCWord5", "SRCWord6",
          "SRCWord7", "SRCWord8", "SRCWord9", "SRCWord9", "SRCWord9"]},
        {"Message": "x {0} {1} %1", "MessageArgSources": ["SRCWord9"]},
        {"Message": "x {nope} %1", "MessageArgSources": ["SRCWord9"]},
        {"Message": "x %1", "MessageArgSources": ["SRCWordQ"]},
        {"Message": "x %1", "MessageArgSources": ["SRCWord1", "SRCWord0"]},
        {"Message": "x %1", "MessageArgSources": [""]},
        {"Message": "x %1", "MessageArgSources": [7]},
        {"Message": "x %1", "MessageArgSources": "69"},
        {"Message": 5, "MessageArgSources": ["SRCWord6"]},
        {"Message": "m", "Words6To9": {}},
        {"Message": "m", "Words6To9": None},
        {"Message": "m", "Words6To9": {
            "6": {"Description": "d6", "AdditionalDataPropSource": "P6"},
            "7": {"AdditionalDataPropSource": "P7"},
            "8": {"Description": "d8", "AdditionalDataPropSource": "P6"},
            "9": {"Description": "d9", "AdditionalDataPropSource": "P9"}}},
        {"Message": "m", "Words6To9": {
            "9": {"Description": "d9", "AdditionalDataPropSource": "P9"},
            "6": {"Description": "d6", "AdditionalDataPropSource": "P6"}}},
        {"Message": "m", "Words6To9": {"6": {"Description": "d6"}}},
        {"Message": "m", "Words6To9": {
            "x": {"Description": "d"}}},
        {"Message": "m", "Words6To9": {
            "x": {"AdditionalDataPropSource": "nodesc"}}},
        {"Message": "m", "Words6To9": {
            "12": {"Description": "d"}}},
        {"Message": "m", "Words6To9": {
            "12": {"Description": "d", "AdditionalDataPropSource": "P"}}},
        {"Message": "m", "Words6To9": {
            "1": {"Description": "neg", "AdditionalDataPropSource": "P"}}},
        {"Message": "m", "Words6To9": {"6": "notadict"}},
        {"Message": "m", "Words6To9": {"6": ["Description"]}},
        {"Message": "m", "Words6To9": [1, 2]},
        {"Words6To9": {"6": {"Description": "d6",
                             "AdditionalDataPropSource": "P6"}}},
    ]
    for d in details_list:
        add("msg", details=d, words=words)
        add("msg", details=d, words=words[:3])

    pel_sets = [GOOD_REGISTRY["PELs"], BAD_REGISTRY["PELs"], [],
                [{"SRC": {"ReasonCode": ["0x2030", "0x2031"], "Type": 7},
                  "Documentation": {"Message": "list reason"}}],
                [{"SRC": {"ReasonCode": "0x2030"}, "Documentation": {}}],
                [{"SRC": {"ReasonCode": "0x2030"}}],
                [{"SRC": None}],
                [{"SRC": {"ReasonCode": None, "Type": "BD"}}],
                [{"SRC": {"ReasonCode": "0x2030", "Words6To9": None},
                  "Documentation": {"Message": "m",
                                    "MessageArgSources": None}}],
                [{"SRC": ["ReasonCode"], "Documentation": {"Message": "m"}}],
                ]
    codes = ["0x2030", "0x2031", "0x2032", "0x2039", "0x9999", "2030", "0x",
             "", "0x203"]
    for si, pset in enumerate(pel_sets):
        for code in codes:
            for st in ("BD", "11", "BC", "", 7):
                add("reg", pels=pset, code=code, stype=st)
                if si < 2 and isinstance(st, str):
                    add("errdetails", pels=pset, code=code[2:], stype=st,
                        words=words)
    add("registry_ctor")

    # --- plugins -------------------------------------------------------------
    for creator in "OQRWVUYZTXqo ":
        for hexwords in (["%08X" % (i * 0x1111) for i in range(8)],
                         ["A"] * 9, ["A"] * 7, [], tuple("12345678"),
                         "ABCDEFGHIJ", [1, 2, 3, 4, 5, 6, 7, 8]):
            for asc in ("BD8D2030", "BC8D0001  ", ""):
                add("parse", creator=creator, hexwords=list(hexwords)
                    if not isinstance(hexwords, str) else hexwords,
                    ascii=asc, as_tuple=isinstance(hexwords, tuple))
        for proc in ("BMC0001", "BMC0008", "NOPE", ""):
            add("proc", creator=creator, proc=proc)
            add("proc", creator=creator, proc=proc)

    # --- component ids -------------------------------------------------------
    for creator in ["O", "B", "H", "M", "N", "L", "", "X", "o", "OO", "T"]:
        for comp in [0x2000, 0xE500, 0x1000, 0xAB00, 0x3100, 0x0000, 0x4142,
                     0x4100, 0x0041, 0xFFFF, 0x12345, 0x7A7A, 1, -1, 0x41FF,
                     0x10041, "2000", 1.5, None, True, [1]]:
            add("compid", comp=comp, creator=creator)
    add("compid_state")

    # a second round of full PELs after all the direct calls (caches warm)
    for i, p in enumerate(pels[:60]):
        add("pel", data=p.hex(), cfg=CFGS[i % 2])
    add("plugin_imports")
    return cases


# --------------------------------------------------------------------------
# driver executed inside the subprocesses
# --------------------------------------------------------------------------

DRIVER = r'''
import sys, io, json, os, contextlib, importlib, importlib.abc
import importlib.machinery
from collections import OrderedDict

cases = json.load(open(sys.argv[1]))
outpath = sys.argv[2]
bmc_dir = sys.argv[3] if len(sys.argv) > 3 and sys.argv[3] != "-" else None

IMPORTS = []


class FakeLoader(importlib.abc.Loader):
    def __init__(self, name):
        self.name = name

    def create_module(self, spec):
        return None

    def exec_module(self, module):
        name = self.name
        IMPORTS.append(name)
        if name.count(".") == 1:
            return
        letter = name.split(".")[1][0]
        is_src = name.startswith("srcparsers.")
        if letter == "q":
            raise SystemExit(3)
        if letter == "r":
            raise ValueError("boom importing " + name)
        if letter == "t":
            return

        def fn_src(refcode, w2, w3, w4, w5, w6, w7, w8, w9):
            print("plugin called", name)
            if letter == "w":
                raise RuntimeError("bad src " + refcode.strip())
            if letter == "v":
                return "null"
            if letter == "u":
                return ""
            if letter == "y":
                return "{not json"
            return json.dumps({"ref": refcode,
                               "words": [w2, w3, w4, w5, w6, w7, w8, w9]})

        def fn_proc(proc):
            print("callout plugin called", name, repr(proc), file=sys.stderr)
            if letter == "w":
                raise RuntimeError("bad proc " + proc)
            if letter == "v":
                return "null"
            if letter == "u":
                return ""
            if letter == "y":
                return "{not json"
            return json.dumps(["desc for " + proc, letter])

        if is_src:
            module.parseSRCToJson = fn_src
        else:
            module.getMaintProcDesc = fn_proc


FAKE = set()
for letter in "qrwvuyzt":
    FAKE.add("srcparsers.%ssrc" % letter)
    FAKE.add("srcparsers.%ssrc.%ssrc" % (letter, letter))
    FAKE.add("calloutparsers.%scallouts" % letter)
    FAKE.add("calloutparsers.%scallouts.%scallouts" % (letter, letter))


class FakeFinder(importlib.abc.MetaPathFinder):
    def find_spec(self, fullname, path, target=None):
        if fullname in FAKE:
            return importlib.machinery.ModuleSpec(
                fullname, FakeLoader(fullname),
                is_package=fullname.count(".") == 1)
        return None


sys.meta_path.insert(0, FakeFinder())

from pel.datastream import DataStream
from pel.peltool.config import Config
import pel.peltool.comp_id as comp_id
if bmc_dir:
    comp_id.pelConfigRootPath = bmc_dir
import pel.peltool.registry as registry_mod
import pel.peltool.pel_values as pel_values
import pel.peltool.pel_types as pel_types
import pel.peltool.src as src
import pel.peltool.peltool as peltool
import enum

MISSING = "<missing>"


def ser(x, depth=0):
    if depth > 12:
        return "<deep>"
    if isinstance(x, dict):
        return {"__t": type(x).__name__,
                "items": [[ser(k, depth + 1), ser(v, depth + 1)]
                          for k, v in x.items()]}
    if isinstance(x, (list, tuple)):
        return {"__t": type(x).__name__,
                "seq": [ser(v, depth + 1) for v in x]}
    if isinstance(x, (memoryview, bytes, bytearray)):
        return {"__t": "bytes", "hex": bytes(x).hex()}
    if isinstance(x, bool) or x is None or isinstance(x, (int, str, float)):
        return {"__t": type(x).__name__, "v": x}
    if isinstance(x, enum.Enum):
        return {"__t": "enum", "v": repr(x)}
    return {"__t": "obj", "v": type(x).__name__}


def mkcfg(d):
    c = Config()
    for k, v in d.items():
        setattr(c, k, list(v) if isinstance(v, list) else v)
    return c


def dump_fru(o):
    if o is None:
        return None
    return ["FRU"] + [ser(getattr(o, a, MISSING)) for a in
                      ("type", "size", "flags", "pnOrProcedureID", "ccin",
                       "sn", "flattenedSize")]


def dump_pce(o):
    if o is None:
        return None
    return ["PCE"] + [ser(getattr(o, a, MISSING)) for a in
                      ("type", "flattenedSize", "flags", "machineType",
                       "serialNumber", "pceNameSize", "pceName")]


def dump_mru(o):
    if o is None:
        return None
    return ["MRU"] + [ser(getattr(o, a, MISSING)) for a in
                      ("type", "flattenedSize", "flags", "reserved4B")] + \
        [[type(m).__name__, ser(m.priority), ser(m.id)] for m in o.mrus]


def dump_callout(c):
    return [ser(getattr(c, a, MISSING)) for a in
            ("size", "flags", "priority", "locationCode",
             "locationCodeSize")] + \
        [dump_fru(c.fruIdentity), dump_pce(c.pceIdentity), dump_mru(c.mru),
         c.flattenedSize(), c.flattenedSize()]


def mkstream(hexdata, order="big"):
    # peltool hands plain bytes to DataStream; "mv-" prefixed orders wrap the
    # data in a memoryview instead (bytes.decode() then refuses the slices)
    data = bytes.fromhex(hexdata)
    if order.startswith("mv-"):
        data = memoryview(data)
        order = order[3:]
    return DataStream(data, byte_order=order, is_signed=False)


def mksrc(stream, creator="O", comp=0x2000):
    return src.SRC(stream, 0x5053, 80, 1, 1, comp, creator)


def run_case(c):
    kind = c["kind"]
    if kind == "pel":
        data = bytes.fromhex(c["data"])
        stream = DataStream(data, byte_order="big", is_signed=False)
        return ser(peltool.parsePEL(stream, mkcfg(c["cfg"]), False))
    if kind == "summary":
        data = bytes.fromhex(c["data"])
        stream = DataStream(data, byte_order="big", is_signed=False)
        return ser(peltool.parsePELSummary(stream, mkcfg(c["cfg"])))
    if kind == "src":
        stream = mkstream(c["data"], c["order"])
        s = mksrc(stream, c["creator"], c["comp"])
        cfg = Config()
        cfg.allow_plugins = c["plugins"]
        try:
            ret = s.toJSON(cfg)
        finally:
            state = [ser(getattr(s, a, MISSING)) for a in
                     ("version", "flags", "reserved1B", "wordCount",
                      "reserved2B", "size", "hexData", "srcType",
                      "asciiString", "sectionID", "sectionLen", "versionID",
                      "subType", "componentID", "creatorID")]
            print("STATE", json.dumps(state), file=sys.stderr)
        return [ser(ret), stream.index, json.dumps(ret, indent=4)]
    if kind == "callout":
        stream = mkstream(c["data"], c["order"])
        co = src.Callout(stream)
        return [dump_callout(co), stream.index]
    if kind == "fru":
        stream = mkstream(c["data"], c["order"])
        return [dump_fru(src.FRUIdentity(stream)), stream.index]
    if kind == "pce":
        stream = mkstream(c["data"], c["order"])
        return [dump_pce(src.PCEIdentity(stream)), stream.index]
    if kind == "mru":
        stream = mkstream(c["data"], c["order"])
        return [dump_mru(src.MRU(stream)), stream.index]
    if kind == "get_value":
        return src.get_value(memoryview(bytes.fromhex(c["data"])),
                             c["start"], c["end"])
    if kind == "msg":
        s = mksrc(mkstream("00"))
        s.hexData = list(c["words"])
        res = []
        for fn in (s.buildMessage, s.buildHexwordDescs):
            try:
                res.append(ser(fn(c["details"])))
            except Exception as e:
                res.append("EXC %s: %s" % (type(e).__name__, e))
        return res
    if kind == "reg":
        r = registry_mod.Registry.__new__(registry_mod.Registry)
        r.pels = c["pels"]
        ret = r.getErrorMessage(c["code"], c["stype"])
        return [ser(ret), ser(r.pels)]
    if kind == "errdetails":
        saved = src.registry.pels
        src.registry.pels = c["pels"]
        try:
            s = mksrc(mkstream("00"))
            s.hexData = list(c["words"])
            out = OrderedDict()
            out["before"] = 1
            ret = s.getErrorDetails(out, c["code"], c["stype"])
            return [ser(ret), ser(out)]
        finally:
            src.registry.pels = saved
    if kind == "registry_ctor":
        r = registry_mod.Registry()
        return [ser(r.pels), ser(src.registry.pels),
                type(src.registry).__name__]
    if kind == "parse":
        s = mksrc(mkstream("00"), c["creator"])
        s.asciiString = c["ascii"]
        hw = c["hexwords"]
        if c["as_tuple"]:
            hw = tuple(hw)
        return ser(s.parse(hw))
    if kind == "proc":
        s = mksrc(mkstream("00"), c["creator"])
        out = OrderedDict()
        out["Procedure"] = c["proc"]
        ret = s.getProcedureDesc(c["proc"], out)
        return [ser(ret), ser(out)]
    if kind == "compid":
        return ser(comp_id.getDisplayCompID(c["comp"], c["creator"]))
    if kind == "compid_state":
        return [ser(comp_id.componentIDs), comp_id.attemptedToParseCompIDs,
                comp_id.pelConfigRootPath == bmc_dir]
    if kind == "plugin_imports":
        return [IMPORTS,
                sorted((k, type(v).__name__)
                       for k, v in src.srcParsers.items()),
                sorted((k, type(v).__name__)
                       for k, v in src.calloutParsers.items())]
    if kind == "consts":
        res = []
        for mod in (pel_values, pel_types, src):
            for name in sorted(vars(mod)):
                val = getattr(mod, name)
                if name.startswith("__"):
                    continue
                if isinstance(val, dict):
                    res.append([mod.__name__, name, ser(val)])
                elif isinstance(val, type) and issubclass(val, enum.Enum):
                    res.append([mod.__name__, name, val.__name__,
                                [[m.name, ser(m.value)] for m in val],
                                sorted(val.__members__)])
        for name in ("creatorIDs", "sectionNames", "subsystemValues",
                     "eventScopeValues", "eventTypeValues", "severityValues",
                     "severityGroupValues", "actionFlagsValues",
                     "transmissionStates", "failingComponentType",
                     "calloutPriorityValues"):
            res.append([name, type(getattr(pel_values, name)).__name__])
        for name in ("SeverityValues", "ActionFlagsValues",
                     "TransmissionState", "SectionID", "SRCType"):
            cls = getattr(pel_types, name)
            res.append([name, [repr(m) for m in cls],
                        [type(m.value).__name__ for m in cls]])
        for name in ("HeaderFlags", "ErrorStatusFlags", "Flags"):
            cls = getattr(src, name)
            res.append([name, [repr(m) for m in cls]])
        return res
    raise RuntimeError("unknown kind " + kind)


results = []
for c in cases:
    so, se = io.StringIO(), io.StringIO()
    rec = {}
    try:
        with contextlib.redirect_stdout(so), contextlib.redirect_stderr(se):
            rec["ret"] = run_case(c)
    except BaseException as e:
        rec["exc"] = "%s: %r" % (type(e).__name__, e.args)
    rec["out"] = so.getvalue()
    rec["err"] = se.getvalue()
    results.append(rec)

with open(outpath, "w") as f:
    json.dump(results, f)
'''


# --------------------------------------------------------------------------
# orchestration
# --------------------------------------------------------------------------


def run_driver(root, work, tag, cases_file, extra_path, opt, bmc_dir):
    out = os.path.join(work, "res_%s.json" % tag)
    env = dict(os.environ)
    paths = [os.path.join(root, "modules")]
    if extra_path:
        paths.append(extra_path)
    env["PYTHONPATH"] = os.pathsep.join(paths)
    env["PYTHONHASHSEED"] = "0"
    env["PYTHONDONTWRITEBYTECODE"] = "1"
    cmd = [PY]
    if opt:
        cmd.append("-O")
    cmd += [os.path.join(work, "driver.py"), cases_file, out, bmc_dir or "-"]
    p = subprocess.run(cmd, env=env, stdout=subprocess.PIPE,
                       stderr=subprocess.PIPE, cwd=work)
    if p.returncode != 0 or not os.path.exists(out):
        return {"crash": [p.returncode, p.stdout.decode(errors="replace"),
                          p.stderr.decode(errors="replace")]}
    with open(out) as f:
        return json.load(f)


def run_cli(root, work, tag, pel_dir, extra_path, excl_file):
    """Run the real CLI with several option combinations."""
    env = dict(os.environ)
    paths = [os.path.join(root, "modules")]
    if extra_path:
        paths.append(extra_path)
    env["PYTHONPATH"] = os.pathsep.join(paths)
    env["PYTHONDONTWRITEBYTECODE"] = "1"
    tool = os.path.join(root, "modules", "pel", "peltool", "peltool.py")
    results = []
    files = sorted(os.listdir(pel_dir))
    combos = []
    for f in files:
        combos.append(["-f", os.path.join(pel_dir, f)])
    for f in files[::3]:
        combos.append(["-f", os.path.join(pel_dir, f), "-P"])
        combos.append(["-f", os.path.join(pel_dir, f), "-x"])
    combos += [
        ["-p", pel_dir, "-l"], ["-p", pel_dir, "-l", "-E"],
        ["-p", pel_dir, "-l", "-E", "-r", "-P"],
        ["-p", pel_dir, "-a", "-E"], ["-p", pel_dir, "-a"],
        ["-p", pel_dir, "-a", "-E", "-P"],
        ["-p", pel_dir, "-n", "-E"], ["-p", pel_dir, "-n"],
        ["-p", pel_dir, "--src", "BD8D2031", "-E"],
        ["-p", pel_dir, "--src", "BD", "-E", "-x"],
        ["-p", pel_dir, "--src-exclude", excl_file, "-E"],
        ["-p", pel_dir, "--plid", "0x50000003", "-E"],
        ["-p", pel_dir, "-i", "50000002", "-E"],
        ["-p", pel_dir, "--bmc-id", "77", "-E"],
        ["-p", pel_dir, "-l", "-H", "-O"],
        ["-p", pel_dir, "-l", "-S", "Unrecoverable", "-O"],
    ]
    for opt in (False, True):
        for combo in combos:
            if opt and combo[0] == "-f" and len(combo) > 2:
                continue
            cmd = [PY] + (["-O"] if opt else []) + [tool] + combo
            p = subprocess.run(cmd, env=env, stdout=subprocess.PIPE,
                               stderr=subprocess.PIPE, cwd=work)
            results.append({"cmd": " ".join(["-O" if opt else ""] + combo),
                            "rc": p.returncode,
                            "out": p.stdout.decode(errors="replace"),
                            "err": p.stderr.decode(errors="replace")})
    # -j into an output directory, then with -c on a copy of the inputs
    for variant, extra in (("json", []), ("jsonP", ["-P"])):
        outdir = os.path.join(work, "out_%s_%s" % (tag, variant))
        os.makedirs(outdir)
        p = subprocess.run([PY, tool, "-p", pel_dir, "-j", "-o", outdir, "-E"]
                           + extra, env=env, stdout=subprocess.PIPE,
                           stderr=subprocess.PIPE, cwd=work)
        listing = {}
        for f in sorted(os.listdir(outdir)):
            with open(os.path.join(outdir, f), "rb") as fd:
                listing[f] = fd.read().decode(errors="replace")
        results.append({"cmd": "-j " + variant, "rc": p.returncode,
                        "out": p.stdout.decode(errors="replace"),
                        "err": p.stderr.decode(errors="replace"),
                        "files": listing})
    copy = os.path.join(work, "pels_copy")
    if os.path.exists(copy):
        shutil.rmtree(copy)
    shutil.copytree(pel_dir, copy)
    p = subprocess.run([PY, tool, "-p", copy, "-j", "-c", "-E"], env=env,
                       stdout=subprocess.PIPE, stderr=subprocess.PIPE,
                       cwd=work)
    listing = {}
    for f in sorted(os.listdir(copy)):
        with open(os.path.join(copy, f), "rb") as fd:
            listing[f] = fd.read().hex()
    results.append({"cmd": "-j -c", "rc": p.returncode,
                    "out": p.stdout.decode(errors="replace"),
                    "err": p.stderr.decode(errors="replace"),
                    "files": listing})
    shutil.rmtree(copy)
    return results


def main():
    if len(sys.argv) != 3:
        print("usage: diffcheck.py <pristine_root> <patched_root>")
        return 2
    roots = [os.path.abspath(sys.argv[1]), os.path.abspath(sys.argv[2])]
    here = os.path.dirname(os.path.abspath(__file__))
    work = tempfile.mkdtemp(prefix="diffcheck_",
                            dir=here if os.access(here, os.W_OK) else None)
    ncases = 0
    ndiff = 0
    try:
        with open(os.path.join(work, "driver.py"), "w") as f:
            f.write(DRIVER)
        cases = gen_cases()
        cases_file = os.path.join(work, "cases.json")
        with open(cases_file, "w") as f:
            json.dump(cases, f)

        good = os.path.join(work, "reg_good")
        os.makedirs(good)
        good_pkg = write_pel_registry(good, GOOD_REGISTRY, GOOD_COMPIDS)
        bad = os.path.join(work, "reg_bad")
        os.makedirs(bad)
        write_pel_registry(bad, BAD_REGISTRY,
                           {"O_component_ids.json": {"2000": "x"},
                            "B_component_ids.json": {"3100": "y"}},
                           broken_file="H_component_ids.json")
        bmc = os.path.join(work, "bmc_pels")
        shutil.copytree(good_pkg, bmc)

        envs = [
            ("none", None, False, None),
            ("good", good, False, None),
            ("bad", bad, False, None),
            ("bmc", None, False, bmc),
            ("noneO", None, True, None),
            ("goodO", good, True, None),
        ]
        for name, extra, opt, bmc_dir in envs:
            res = [run_driver(r, work, "%s_%d" % (name, i), cases_file, extra,
                              opt, bmc_dir) for i, r in enumerate(roots)]
            if isinstance(res[0], dict) or isinstance(res[1], dict):
                print("DRIVER CRASH in env", name)
                for r in res:
                    if isinstance(r, dict):
                        print(r["crash"][0], r["crash"][2][-3000:])
                ndiff += 1
                continue
            if len(res[0]) != len(cases) or len(res[1]) != len(cases):
                print("result count mismatch in env", name)
                ndiff += 1
                continue
            for idx, (a, b) in enumerate(zip(*res)):
                ncases += 1
                if a != b:
                    ndiff += 1
                    if ndiff <= 15:
                        print("DIFF env=%s case #%d %s" % (
                            name, idx, json.dumps(cases[idx])[:600]))
                        for key in ("ret", "exc", "out", "err"):
                            if a.get(key) != b.get(key):
                                print("   %s pristine: %s" % (
                                    key, json.dumps(a.get(key))[:1500]))
                                print("   %s patched : %s" % (
                                    key, json.dumps(b.get(key))[:1500]))

        # ---- CLI ----------------------------------------------------------
        rng = random.Random(4711)
        pel_dir = os.path.join(work, "pels")
        os.makedirs(pel_dir)
        for i in range(14):
            p = rand_pel(rng, 0x50000001 + i)
            if i == 5:
                p = p[:100]
            if i == 6:
                p = b'garbage' * 9
            if i == 7:
                p = p[:len(p) - 7]
            with open(os.path.join(pel_dir, "%02d_log.pel" % i), "wb") as f:
                f.write(p)
        co = callout_section([callout([fru_identity(0x4A, b'BMC0002')]),
                              callout([fru_identity(0x1D, b'01AB234', b'2E33',
                                                    b'YL10JJ123456'),
                                       pce_identity(),
                                       mru([(0x48, 0x10001), (0x4D, 7)])])])
        with open(os.path.join(pel_dir, "20_full.pel"), "wb") as f:
            f.write(make_pel(b'O', src_body(b'BD8D2031', 1, 9, None, co),
                             eid=0x50000030))
        with open(os.path.join(pel_dir, "21_exit.pel"), "wb") as f:
            f.write(make_pel(b'Q', src_body(b'BD8D2030', 1, 9, None, co),
                             eid=0x50000031))
        excl = os.path.join(work, "exclude.txt")
        with open(excl, "w") as f:
            f.write("BD8D2030\nBD8D2031\n")
        for name, extra in (("none", None), ("good", good)):
            res = [run_cli(r, work, "%s_%d" % (name, i), pel_dir, extra, excl)
                   for i, r in enumerate(roots)]
            for a, b in zip(*res):
                ncases += 1
                # the tool path differs between the two trees; it only shows
                # up in tracebacks, which are normalised here
                for r, root in ((a, roots[0]), (b, roots[1])):
                    r["err"] = r["err"].replace(root, "<ROOT>")
                    r["out"] = r["out"].replace(root, "<ROOT>")
                if a != b:
                    ndiff += 1
                    if ndiff <= 15:
                        print("CLI DIFF env=%s cmd=%s" % (name, a["cmd"]))
                        for key in ("rc", "out", "err", "files"):
                            if a.get(key) != b.get(key):
                                print("   %s pristine: %s" % (
                                    key, json.dumps(a.get(key))[-1500:]))
                                print("   %s patched : %s" % (
                                    key, json.dumps(b.get(key))[-1500:]))
    finally:
        if os.environ.get("DIFFCHECK_KEEP"):
            print("work dir kept:", work)
        else:
            shutil.rmtree(work, ignore_errors=True)

    if ndiff:
        print("DIFFERENT (%d of %d cases differ)" % (ndiff, ncases))
        return 1
    print("IDENTICAL (%d cases)" % ncases)
    return 0


if __name__ == "__main__":
    sys.exit(main())
