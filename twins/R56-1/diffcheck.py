#!/usr/bin/env python3
"""
Differential check for the R56 refactorings (hwdiags ParserData, the oe500
user data / SRC parsers, the osrc SRC parser and the parser-module loading in
pel/peltool/src.py and pel/peltool/parse_user_data.py).

usage: diffcheck.py <pristine_root> <patched_root>

Both trees are copied into a scratch directory next to this script, identical
fixtures are added to both copies (hwdiags chip data files, a message
registry, well behaved and misbehaving parser plug-ins) and then the same
direct API sessions and peltool command lines are run against both copies in
subprocesses (normal and with `python -O`).  Everything observable is
compared: stdout, stderr (tracebacks reduced to their unindented lines), exit
status and the files found in the working directories afterwards.

Prints "IDENTICAL (<n> cases)" and exits 0 if nothing differs, exits 1
otherwise.
"""

import hashlib
import json
import os
import random
import shutil
import struct
import subprocess
import sys
import tempfile

PY = sys.executable
HERE = os.path.dirname(os.path.abspath(__file__))

# ---------------------------------------------------------------------------
# Fixtures added to both trees
# ---------------------------------------------------------------------------

CHIP_A = {
    "model_ec": {"id": "20da0020", "type": "proc", "desc": "P10 2.0"},
    "attn_types": {"1": "CHECKSTOP", "2": "UNIT_CS", "3": "RECOVERABLE",
                   "16": 16, "17": None},
    "signatures": {
        "abcd": ["EQ_LFIR", {"0": "bit zero", "5": "bit five",
                             "255": "last bit"}],
        "1234": ["ONLY_NAME"],
        "00ff": {"0": "dict instead of list"},
        "0a0b": ["NESTED", ["a", "b"]],
        "ffff": [["list name"], {"1": ["list", "desc"], "2": 2, "3": None}],
    },
    "registers": {
        "abcdef": ["REG_A", {"0": "0x1234", "1": "zz", "2": "20028440",
                             "3": "-5", "4": 77}],
        "000001": ["A_REGISTER_NAME_THAT_IS_LONGER_THAN_25_CHARS",
                   {"3": "20028440", "255": "ffffffffff"}],
        "000002": ["SHORT"],
        "000003": {"x": "y"},
        "000004": [12345, {"0": "1"}],
        "000005": [["L"], {"0": "2"}],
    },
}

CHIP_B = {
    "model_ec": {"id": "30da0010"},
    "signatures": {},
}

CHIP_C = {
    "model_ec": {"id": "0000abcd", "type": 7, "desc": ["d", 1]},
    "attn_types": ["x", "y"],
    "signatures": "abcdabcdabcd",
    "registers": {"abcdef": "string"},
}

REGISTRY = {
    "PELs": [
        {"Name": "a.b.c",
         "SRC": {"ReasonCode": "0x2030",
                 "Words6To9": {"6": {"Description": "w six",
                                     "AdditionalDataPropSource": "W6"},
                               "7": {"AdditionalDataPropSource": "W7"}}},
         "Documentation": {"Message": "Message %1 and %2",
                           "MessageArgSources": ["SRCWord6", "SRCWord7"]}},
        {"Name": "p.q", "SRC": {"ReasonCode": "0xE500", "Type": "BC"},
         "Documentation": {"Message": "hostboot message"}},
        {"Name": "n.r", "SRC": {"Type": "11"},
         "Documentation": {"Message": "no reason code"}},
    ]
}

PLUGINS = {
    # ---- pel_registry ---------------------------------------------------
    "pel_registry/__init__.py": '''
import os
def get_registry_path():
    return os.path.join(os.path.dirname(__file__), "message_registry.json")
''',
    "pel_registry/message_registry.json": json.dumps(REGISTRY),
    "pel_registry/O_component_ids.json": json.dumps({"E500": "hw-diags",
                                                     "1000": "bmc-state"}),
    # ---- SRC parsers: srcparsers.<creator>src.<creator>src -------------
    "srcparsers/bsrc/__init__.py": "",
    "srcparsers/bsrc/bsrc.py": '''
import json
print("IMPORT bsrc")
calls = []
def parseSRCToJson(refcode, w2, w3, w4, w5, w6, w7, w8, w9):
    calls.append(refcode)
    if refcode[2:4] == "EE":
        raise ValueError("bsrc does not like " + refcode.strip())
    if refcode[2:4] == "NN":
        return json.dumps(None)
    if refcode[2:4] == "XX":
        return "{not json"
    if refcode[2:4] == "MM":
        raise ModuleNotFoundError("raised while parsing")
    return json.dumps({"bsrc": [refcode.strip(), w2, w3, w4, w5, w6, w7, w8,
                                w9], "calls": len(calls)})
''',
    # import fails with a plain exception
    "srcparsers/hsrc/__init__.py": "",
    "srcparsers/hsrc/hsrc.py": '''
print("IMPORT hsrc")
raise RuntimeError("hsrc is broken")
''',
    # import terminates the interpreter
    "srcparsers/psrc/__init__.py": "",
    "srcparsers/psrc/psrc.py": '''
import sys
print("IMPORT psrc")
sys.exit(7)
''',
    # import pulls in a module that does not exist
    "srcparsers/ksrc/__init__.py": "",
    "srcparsers/ksrc/ksrc.py": '''
print("IMPORT ksrc")
import a_module_that_does_not_exist_anywhere
''',
    # module without the parser function
    "srcparsers/lsrc/__init__.py": "",
    "srcparsers/lsrc/lsrc.py": '''
print("IMPORT lsrc")
''',
    # syntax error
    "srcparsers/ssrc/__init__.py": "",
    "srcparsers/ssrc/ssrc.py": "def broken(:\n",
    # parser terminates the interpreter
    "srcparsers/tsrc/__init__.py": "",
    "srcparsers/tsrc/tsrc.py": '''
import sys
print("IMPORT tsrc")
def parseSRCToJson(refcode, *words):
    if refcode[2:4] == "QQ":
        sys.exit(9)
    return '{"tsrc": %d}' % len(words)
''',
    # ---- BMC component SRC parsers: srcparsers.o<cc>00.o<cc>00 ----------
    "srcparsers/o1000/__init__.py": "",
    "srcparsers/o1000/o1000.py": '''
print("IMPORT o1000")
import another_module_that_does_not_exist
''',
    "srcparsers/o2000/__init__.py": "",
    "srcparsers/o2000/o2000.py": '''
print("IMPORT o2000")
raise ValueError("o2000 cannot be imported")
''',
    "srcparsers/o3000/__init__.py": "",
    "srcparsers/o3000/o3000.py": '''
import json
print("IMPORT o3000")
count = [0]
def parseSRCToJson(refcode, w2, w3, w4, w5, w6, w7, w8, w9):
    count[0] += 1
    if w9 == "DEADBEEF":
        raise KeyError("w9")
    if w9 == "0000000E":
        raise ModuleNotFoundError("late")
    if w9 == "0000000F":
        return None
    return json.dumps({"o3000": [refcode.strip(), w2, w9], "n": count[0]})
''',
    "srcparsers/o4000/__init__.py": "",
    "srcparsers/o4000/o4000.py": '''
print("IMPORT o4000")
raise ImportError("o4000 plain import error")
''',
    "srcparsers/o5000/__init__.py": "",
    "srcparsers/o5000/o5000.py": '''
print("IMPORT o5000")
''',
    # ---- callout parsers -----------------------------------------------
    "calloutparsers/bcallouts/__init__.py": "",
    "calloutparsers/bcallouts/bcallouts.py": '''
print("IMPORT bcallouts")
raise KeyError("bcallouts is broken")
''',
    "calloutparsers/hcallouts/__init__.py": "",
    "calloutparsers/hcallouts/hcallouts.py": '''
print("IMPORT hcallouts")
def getMaintProcDesc(procedure):
    if procedure.startswith("E"):
        raise ValueError("no description")
    if procedure.startswith("J"):
        return "{bad json"
    if procedure.startswith("N"):
        return None
    if procedure.startswith("Z"):
        return "null"
    return '["desc of %s"]' % procedure
''',
    "calloutparsers/pcallouts/__init__.py": "",
    "calloutparsers/pcallouts/pcallouts.py": '''
import sys
print("IMPORT pcallouts")
sys.exit(5)
''',
    "calloutparsers/mcallouts/__init__.py": "",
    "calloutparsers/mcallouts/mcallouts.py": '''
print("IMPORT mcallouts")
''',
    "calloutparsers/tcallouts/__init__.py": "",
    "calloutparsers/tcallouts/tcallouts.py": '''
import sys
print("IMPORT tcallouts")
def getMaintProcDesc(procedure):
    if procedure.startswith("Q"):
        sys.exit(11)
    return '{"t": "%s"}' % procedure
''',
    # ---- user data parsers: udparsers.<c><comp>.<c><comp> ---------------
    "udparsers/b0100/__init__.py": "",
    "udparsers/b0100/b0100.py": '''
print("IMPORT b0100")
import yet_another_module_that_does_not_exist
''',
    "udparsers/b0200/__init__.py": "",
    "udparsers/b0200/b0200.py": "def broken(:\n",
    "udparsers/b0300/__init__.py": "",
    "udparsers/b0300/b0300.py": '''
import json
print("IMPORT b0300")
def parseUDToJson(subtype, version, data):
    if subtype == 1:
        raise ImportError("raised while parsing")
    if subtype == 2:
        raise ModuleNotFoundError("not found while parsing")
    if subtype == 3:
        return "null"
    if subtype == 4:
        return None
    if subtype == 5:
        return "this is not json"
    if subtype == 6:
        raise KeyError("six")
    if subtype == 7:
        return json.dumps([subtype, version, data.hex()])
    if subtype == 8:
        return json.dumps("")
    if subtype == 9:
        raise SystemExit(13)
    return json.dumps({"b0300": {"subtype": subtype, "version": version,
                                 "len": len(data), "hex": data.hex()}})
''',
    "udparsers/b0400/__init__.py": "",
    "udparsers/b0400/b0400.py": '''
print("IMPORT b0400")
raise ImportError("b0400 plain import error")
''',
    "udparsers/b0500/__init__.py": "",
    "udparsers/b0500/b0500.py": '''
print("IMPORT b0500")
raise OSError("b0500 os error")
''',
    "udparsers/b0600/__init__.py": "",
    "udparsers/b0600/b0600.py": '''
print("IMPORT b0600")
''',
    "udparsers/b0700/__init__.py": "",
    "udparsers/b0700/b0700.py": '''
import sys
print("IMPORT b0700")
sys.exit(17)
''',
}


def add_fixtures(mod_dir):
    data_dir = os.path.join(mod_dir, 'pel', 'hwdiags', 'data')
    for name, content in (('chip_a.json', CHIP_A), ('chip_b.json', CHIP_B),
                          ('chip_c.json', CHIP_C)):
        with open(os.path.join(data_dir, name), 'w') as fp:
            json.dump(content, fp)
    for rel, text in PLUGINS.items():
        path = os.path.join(mod_dir, rel)
        os.makedirs(os.path.dirname(path), exist_ok=True)
        with open(path, 'w') as fp:
            fp.write(text)


# ---------------------------------------------------------------------------
# The driver which runs inside the subprocesses (direct API sessions)
# ---------------------------------------------------------------------------

DRIVER = r'''
import json, sys, importlib

def show(tag, fn, *args, **kw):
    try:
        res = fn(*args, **kw)
        print("%s -> %s %r" % (tag, type(res).__name__, res))
    except BaseException as e:
        print("%s !! %s %r %s" % (tag, type(e).__name__, e.args, e))
    sys.stdout.flush()

def cache(d):
    return sorted((k, None if v is None else getattr(v, "__name__", repr(v)))
                  for k, v in d.items())

def conv(x):
    """decode the argument encoding used by the case files"""
    if isinstance(x, dict):
        k = x["t"]
        if k == "bytes": return bytes.fromhex(x["v"])
        if k == "mv": return memoryview(bytes.fromhex(x["v"]))
        if k == "ba": return bytearray.fromhex(x["v"])
        if k == "float": return float(x["v"])
        if k == "tuple": return tuple(conv(i) for i in x["v"])
        raise ValueError(k)
    if isinstance(x, list):
        return [conv(i) for i in x]
    return x

def s_parserdata(cases):
    from pel.hwdiags.parserdata import ParserData
    p = ParserData()
    print("models", sorted(p._data))
    q = ParserData()
    for i, (meth, args) in enumerate(cases):
        obj = p if i % 3 else q
        show("pd%d %s%r" % (i, meth, args), getattr(obj, meth), *conv(args))
    print("same data", sorted(p._data) == sorted(q._data))

def s_ud_oe500(cases):
    import udparsers.oe500.oe500 as m
    for i, (sub, ver, hx) in enumerate(cases):
        show("ud%d %r %r %s" % (i, sub, ver, hx[:40]), m.parseUDToJson,
             conv(sub), ver, memoryview(bytes.fromhex(hx)))

def s_src_oe500(cases):
    import srcparsers.oe500.oe500 as m
    for i, args in enumerate(cases):
        show("so%d %r" % (i, args), m.parseSRCToJson, *conv(args))

def s_osrc(cases):
    import srcparsers.osrc.osrc as m
    for i, args in enumerate(cases):
        show("os%d %r" % (i, args), m.parseSRCToJson, *conv(args))
        print("   cache", cache(m.osrcParsers))

def s_src(cases):
    import pel.peltool.src as m
    from pel.datastream import DataStream
    from collections import OrderedDict
    for i, (kind, creator, a, b) in enumerate(cases):
        src = m.SRC(DataStream(b"", byte_order="big", is_signed=False),
                    0x5053, 80, 1, 0, 0x1000, conv(creator))
        if kind == "parse":
            src.asciiString = a
            show("sp%d %r %r %r" % (i, creator, a, b), src.parse, conv(b))
        else:
            out = OrderedDict()
            if b:
                out["Description"] = "previous"
            show("gp%d %r %r" % (i, creator, a), src.getProcedureDesc,
                 conv(a), out)
            print("   out", json.dumps(out))
        print("   caches", cache(m.srcParsers), cache(m.calloutParsers))

def s_pud(cases):
    import pel.peltool.parse_user_data as m
    from pel.peltool.config import Config
    for i, (creator, comp, sub, ver, data, plugins) in enumerate(cases):
        cfg = Config()
        cfg.allow_plugins = plugins
        p = m.ParseUserData(conv(creator), conv(comp), conv(sub), ver,
                            conv(data))
        show("pu%d %r %r %r %r %r %r" % (i, creator, comp, sub, ver, data,
                                        plugins), p.parse, cfg)
        if i % 2:
            show("pc%d" % i, p.parseCustom)
        if i % 5 == 0:
            show("pb%d" % i, p.getBuiltinFormatJSON)
        print("   cache", cache(m.userDataParsers))

def main():
    with open(sys.argv[1]) as fp:
        sessions = json.load(fp)
    for name, cases in sessions:
        print("=== session", name, len(cases))
        try:
            globals()["s_" + name](cases)
        except BaseException as e:
            print("SESSION DIED", type(e).__name__, e)
    print("=== done")

main()
'''

# ---------------------------------------------------------------------------
# Case generation
# ---------------------------------------------------------------------------

rnd = random.Random(0x5256)

MODELS = ['20da0020', '20DA0020', '30da0010', '0000abcd', '0000ABCD',
          '23ABcdEf', '11111111', 'ffffffff']
BAD_HEX = ['', 'xyz', '20da002', '20da00200', 'some_string', '0x123456',
           '20da 020', '20da0020\n', None, 1234, {"t": "bytes", "v": "20da0020"},
           ['2', '0'], {"t": "float", "v": "1.5"}]
SIG_IDS = ['abcd', 'ABCD', '1234', '00ff', '0a0b', 'ffff', 'FFFF', '5555',
           '0000']
REG_IDS = ['abcdef', 'ABCDEF', '000001', '000002', '000003', '000004',
           '000005', '123456', 'ffffff']
INTS = [0, 1, 2, 3, 4, 5, 16, 17, 0x44, 255, 256, 0x2222, 65535, 65536, -1,
        True, {"t": "float", "v": "2.0"}, {"t": "float", "v": "3.7"}, None,
        "5", 1 << 40]


def parserdata_cases():
    c = []
    for m in MODELS + BAD_HEX:
        c.append(("query_model_ec", [m]))
        for a in (1, 2, 16, 17, 99, -3, "1", None, True):
            c.append(("get_attn_desc", [m, a]))
        c.append(("get_chip_desc", [m, 1, 2]))
        c.append(("get_sig_desc", [m, 'abcd', 1, 5]))
        c.append(("get_reg_data", [m, 'abcdef', 0]))
    for m in MODELS:
        for n in INTS:
            for p in rnd.sample(INTS, 4):
                c.append(("get_chip_desc", [m, n, p]))
        for s in SIG_IDS + BAD_HEX:
            for inst in rnd.sample(INTS, 3):
                for bit in rnd.sample(INTS, 3) + [0, 5, 255, 1, 2, 3]:
                    c.append(("get_sig_desc", [m, s, inst, bit]))
        for r in REG_IDS + BAD_HEX:
            for inst in rnd.sample(INTS, 3) + [0, 1, 2, 3, 4, 255]:
                c.append(("get_reg_data", [m, r, inst]))
    words_b = ['22223344', '00010001', 'ffffff11', '00000010', 'FFFF0011',
               '0001', '', 'zzzzzzzz', '0x010203', '  1  2  ', '+1+2+3+4',
               None, 5]
    words_c = ['55556677', 'abcd0105', 'ABCD00ff', '12340100', '00ff0000',
               'ffff0101', 'ffff0102', 'ffff0103', '0a0b0000', 'abcd',
               'wxyz0101', 'abcd-1+2', None, '']
    for m in MODELS + BAD_HEX[:6]:
        for b in words_b:
            for cc in words_c:
                c.append(("get_signature", [m, b, cc]))
    for meth, args in (("_check_hex", ["ab", 1]), ("_check_hex", ["ab", 2]),
                       ("_check_hex", ["abcd", 2]), ("_check_hex", ["abcdef", 3]),
                       ("_check_hex", ["abcdefgh", 4]), ("_check_hex", ["ab", 5]),
                       ("_check_hex", ["ab", 0]), ("_check_hex", ["ab", None]),
                       ("_check_hex", [None, 1]),
                       ("_check_hex", [{"t": "bytes", "v": "6162"}, 1]),
                       ("_check_hex", ["ab", [1]]),
                       ("_check_int", [0, 1]), ("_check_int", [255, 1]),
                       ("_check_int", [256, 1]), ("_check_int", [-1, 2]),
                       ("_check_int", [65536, 2]), ("_check_int", [1, 0]),
                       ("_check_int", [1, -1]), ("_check_int", ["1", 1]),
                       ("_check_int", [1, {"t": "float", "v": "1.0"}]),
                       ("_check_int", [1, True]), ("_check_int", [300, True]),
                       ("_check_int", [None, 1])):
        c.append((meth, args))
    return c


def be(n, size):
    return (n & ((1 << (8 * size)) - 1)).to_bytes(size, 'big')


def sig_list(sigs, count=None):
    out = be(len(sigs) if count is None else count, 4)
    for a, b, c in sigs:
        out += bytes.fromhex(a) + bytes.fromhex(b) + bytes.fromhex(c)
    return out


def reg_dump(chips, count=None):
    out = be(len(chips) if count is None else count, 4)
    for model, chip_pos, node_pos, regs, nregs in chips:
        out += bytes.fromhex(model) + be(chip_pos, 2) + be(node_pos, 1)
        out += be(len(regs) if nregs is None else nregs, 4)
        for reg_id, inst, data, size in regs:
            out += bytes.fromhex(reg_id) + be(inst, 1)
            out += be(len(data) if size is None else size, 1) + data
    return out


def rand_sig():
    return (rnd.choice(MODELS).lower() if rnd.random() < .8 else
            '%08x' % rnd.getrandbits(32),
            '%04x%02x%02x' % (rnd.choice([0, 1, 0x22, 0xffff]),
                              rnd.choice([0, 1, 0x33, 0xff]),
                              rnd.choice([1, 2, 3, 16, 17, 0x44])),
            rnd.choice(['abcd', '1234', '00ff', 'ffff', '5555', '0a0b'][:rnd.choice([1, 1, 6])]) +
            '%02x%02x' % (rnd.choice([0, 1, 0x66]),
                          rnd.choice([0, 1, 2, 3, 5, 255, 0x77])))


def rand_chip(safe):
    regs = []
    for _ in range(rnd.choice([0, 1, 2, 5])):
        if safe:
            rid = rnd.choice(['abcdef', '000001', '000002', '123456'])
            inst = rnd.choice([0, 2, 3, 9] if rid == 'abcdef' else [3, 255, 9] if rid == '000001' else [0, 1])
            if rid == '000001' and inst == 255:
                inst = 3
        else:
            rid = rnd.choice(REG_IDS + ['%06x' % rnd.getrandbits(24)])
            inst = rnd.choice([0, 1, 2, 3, 4, 255, rnd.getrandbits(8)])
        data = bytes(rnd.getrandbits(8) for _ in range(rnd.choice([1, 2, 3, 4, 8, 8, 16, 33])))
        regs.append((rid, inst, data, None))
    model = rnd.choice(['20da0020', '30da0010', '23abcdef'] if safe else
                       [m.lower() for m in MODELS])
    return (model, rnd.choice([0, 1, 0x2222, 0xffff]), rnd.choice([0, 1, 255]),
            regs, None)


def ud_oe500_payloads():
    """(subtype, payload) pairs for the hw-diags user data parser"""
    p = []
    # signature lists
    p.append((1, sig_list([])))
    p.append((1, sig_list([('11111111', '22223344', '55556677')])))
    p.append((1, sig_list([('20da0020', '00010001', 'abcd0105')])))
    for _ in range(25):
        p.append((1, sig_list([rand_sig() for _ in range(rnd.choice([1, 2, 3, 7]))])))
    p.append((1, sig_list([rand_sig()], count=2)))
    p.append((1, sig_list([rand_sig()], count=0)))
    p.append((1, sig_list([rand_sig(), rand_sig()], count=0xffffffff)))
    p.append((1, sig_list([rand_sig(), rand_sig()], count=1) + b'trailing'))
    # register dumps
    p.append((2, reg_dump([])))
    for i in range(30):
        p.append((2, reg_dump([rand_chip(i % 2 == 0)
                               for _ in range(rnd.choice([1, 1, 2, 3]))])))
    p.append((2, reg_dump([('20da0020', 1, 1, [('abcdef', 0, b'', None)], None)])))
    p.append((2, reg_dump([('20da0020', 1, 1, [('abcdef', 0, b'\x01\x02', 200)], None)])))
    p.append((2, reg_dump([('20da0020', 1, 1, [('abcdef', 1, b'\x01\x02', None)], None)])))
    p.append((2, reg_dump([('20da0020', 1, 1, [('abcdef', 4, b'\x01\x02', None)], None)])))
    p.append((2, reg_dump([('20da0020', 1, 1, [('000003', 0, b'\x01', None)], None)])))
    p.append((2, reg_dump([('20da0020', 1, 1, [('000004', 0, b'\x01', None)], None)])))
    p.append((2, reg_dump([('20da0020', 1, 1, [('000005', 0, b'\x01', None)], None)])))
    p.append((2, reg_dump([('0000abcd', 1, 1, [('abcdef', 0, b'\x01', None)], None)])))
    p.append((2, reg_dump([('20da0020', 1, 1, [('abcdef', 0, b'\x01', None)], 3)])))
    p.append((2, reg_dump([('20da0020', 1, 1, [], 0xffffffff)])))
    p.append((2, reg_dump([('20da0020', 1, 1, [], None)], count=0x80000000)))
    p.append((2, reg_dump([rand_chip(True)]) + b'\0\0\0'))
    # callout FFDC
    for text in (b'{"a": 1}', b'{"a": 1}\0', b'[1, 2, {"x": null}]\0\0\0',
                 b'', b'\0', b'null\0', b'"str"', b'{bad', b'\xff\xfe{}\0',
                 b'{"a": 1}\0trailing', b'  {"k": [true, 1.5e3]}  \0',
                 '{"ü": "é"}'.encode() + b'\0', b'NaN', b'{"a":1,"a":2}\0'):
        p.append((3, text))
    # scratch registers / scratch register signature
    for n in (0, 1, 3, 4, 7, 8, 15, 16, 23, 24, 25, 40):
        blob = bytes(rnd.getrandbits(8) for _ in range(n))
        p.append((4, blob))
        p.append((5, blob))
    p.append((4, bytes(24)))
    p.append((4, bytes([0, 0, 0, 1]) * 6))
    # unknown sub types
    for sub in (0, 6, 7, 100, 255, -1):
        p.append((sub, bytes(rnd.getrandbits(8) for _ in range(12))))
    return p


def ud_oe500_cases(payloads):
    c = []
    for sub, blob in payloads:
        c.append((sub, rnd.choice([0, 1, 2]), blob.hex()))
        if len(blob) > 4:
            for _ in range(3):
                c.append((sub, 1, blob[:rnd.randrange(len(blob))].hex()))
            for _ in range(3):
                m = bytearray(blob)
                for _ in range(rnd.choice([1, 1, 2, 4])):
                    m[rnd.randrange(len(m))] = rnd.getrandbits(8)
                c.append((sub, 1, bytes(m).hex()))
    for _ in range(60):
        c.append((rnd.choice([1, 2, 3, 4, 5]), 1,
                  bytes(rnd.getrandbits(8) for _ in range(rnd.randrange(0, 64))).hex()))
    for sub in (True, None, "1", {"t": "float", "v": "2.0"}, [1],
                {"t": "tuple", "v": [1]}):
        c.append((sub, 1, sig_list([rand_sig()]).hex()))
    return c


def src_words():
    return ['%08X' % rnd.getrandbits(32) for _ in range(4)] + \
        list(rnd.choice([('20DA0020', '00010001', 'ABCD0105'),
                         ('20da0020', '00010002', 'abcd0005'),
                         ('30DA0010', '22223344', '55556677'),
                         ('0000ABCD', '00010001', 'ABCD0105'),
                         ('20DA0020', '00010010', 'FFFF0101'),
                         ('20DA0020', '00010011', '12340101'),
                         ('23ABCDEF', 'ZZ010001', 'ABCD0105'),
                         ('XYZ', '00010001', 'ABCD0105'),
                         ('20DA0020', '0001', 'ABCD0105'),
                         ('20DA0020', '00010001', ''),
                         ('00000000', '00000000', '00000000')])) + \
        [rnd.choice(['00000000', 'DEADBEEF', '0000000E', '0000000F',
                     '12345678'])]


REFCODES = ['BD50E510', 'BD50E500', 'BD8DE510', 'BD50e510', 'BD501000',
            'BD502000', 'BD503000', 'BD504000', 'BD505000', 'BD506000',
            'BD50300A', 'BC8A1234', 'BCEE1234', 'BCNN1234', 'BCXX0000',
            'BCMM0000', '11003000', 'BD', '', 'BD50E5', 'bd503000',
            'BD50E510                        ', 'B', 'BC', 'BD50é500']


def src_oe500_cases():
    c = []
    for r in REFCODES:
        for _ in range(4):
            c.append([r] + src_words())
    c.append([None] + src_words())
    c.append([1234] + src_words())
    c.append([{"t": "bytes", "v": "4244353045353130"}] + src_words())
    c.append([['B', 'D', '5', '0', 'E', '5', '1', '0']] + src_words())
    return c


def osrc_cases(seed):
    r = random.Random(seed)
    c = []
    for _ in range(140):
        c.append([r.choice(REFCODES)] + src_words())
    c.append([None] + src_words())
    c.append([{"t": "bytes", "v": "4244353045353130"}] + src_words())
    c.append([['B', 'C']] + src_words())
    c.append([{"t": "tuple", "v": ["B", "C"]}] + src_words())
    for _ in range(30):
        c.append([r.choice(REFCODES)] + src_words())
    return c


def src_cases(seed):
    r = random.Random(seed)
    creators = ['O', 'B', 'H', 'P', 'K', 'L', 'S', 'T', 'M', 'o', 'X', '', 'OO']
    c = []
    for i in range(260):
        cr = r.choice(creators)
        if r.random() < .6:
            ascii_str = r.choice(REFCODES[:17]).ljust(32)
            if cr == 'T' and r.random() < .3:
                ascii_str = 'BDQQ0000'.ljust(32)
            words = src_words()
            if r.random() < .1:
                words = words + ['EXTRA000', 'EXTRA001']
            if r.random() < .03:
                words = {"t": "tuple", "v": words}
            c.append(("parse", cr, ascii_str, words))
        else:
            proc = r.choice(['BMC0001', 'BMC0002', 'BMC0008', 'BMC9999', '',
                             'EFAIL', 'JSON', 'NONE', 'ZNULL', 'QUIT', 'OK'])
            c.append(("proc", cr, proc, r.random() < .3))
    c.append(("parse", None, 'BD50E510'.ljust(32), src_words()))
    c.append(("proc", None, 'BMC0001', False))
    c.append(("proc", 'O', None, False))
    c.append(("proc", 'O', ['BMC0001'], False))
    c.append(("parse", 'O', None, src_words()))
    for cr in creators:
        c.append(("parse", cr, 'BD50E510'.ljust(32), src_words()))
        c.append(("proc", cr, 'BMC0002', False))
    return c


TEXTS = [b'{"a": 1}', b'  {"a": [1,2]}\n\0\0', b'hello\nworld\x01\x7f~ \n\nlast',
         b'\n\n', b'line\n', b'', b'\0\0\0', b'\xff\xfe', 'grüße\n€'.encode(),
         b'not json at all', b'null', b' \t\x00']


def pud_cases(seed, payloads):
    r = random.Random(seed)
    c = []
    comps = [0x0100, 0x0200, 0x0300, 0x0400, 0x0500, 0x0600, 0x0700, 0x0800,
             0xE500, 0x2000, 0x2C00]
    for i in range(420):
        cr = r.choice(['B', 'B', 'B', 'O', 'O', 'M', 'H', 'b', 'X', ''])
        comp = r.choice(comps)
        sub = r.choice([0, 1, 2, 3, 4, 5, 6, 7, 8, 9, 10, 72, 255])
        kind = r.random()
        if cr == 'O' and comp == 0xE500:
            sub, blob = r.choice(payloads)
            if r.random() < .3 and len(blob) > 2:
                blob = blob[:r.randrange(len(blob))]
        elif cr == 'O' and comp == 0x2000:
            blob = r.choice(TEXTS)
        else:
            blob = bytes(r.getrandbits(8) for _ in range(r.choice([0, 1, 5, 16, 17, 40])))
        if kind < .6:
            data = {"t": "mv", "v": blob.hex()}
        elif kind < .9:
            data = {"t": "bytes", "v": blob.hex()}
        else:
            data = {"t": "ba", "v": blob.hex()}
        c.append((cr, comp, sub, r.choice([0, 1, 2]), data, r.random() < .8))
    c.append((None, 0x100, 1, 1, {"t": "bytes", "v": "00"}, True))
    c.append(('B', None, 1, 1, {"t": "bytes", "v": "00"}, True))
    c.append(('B', "0100", 1, 1, {"t": "bytes", "v": "00"}, True))
    c.append(('B', {"t": "float", "v": "256.0"}, 1, 1, {"t": "bytes", "v": "00"}, True))
    c.append(('B', 0x0300, "1", 1, {"t": "bytes", "v": "00"}, True))
    c.append(('B', 0x0300, None, 1, {"t": "bytes", "v": "00"}, True))
    c.append(('B', 0x0900, None, 1, {"t": "bytes", "v": "00"}, True))
    c.append(('B', 0x0300, 20, None, None, True))
    c.append(('B', 0x0300, 20, 1, "string data", True))
    c.append(('O', 0x2000, 1, 1, None, True))
    c.append(('O', 0x2000, 3, 1, "text", True))
    c.append(('B', 0x0100, 1, 1, {"t": "bytes", "v": "0011"}, True))
    return c


# ---------------------------------------------------------------------------
# Binary PELs for the command line runs
# ---------------------------------------------------------------------------

def sec_hdr(sid, length, ver, sub, comp):
    return sid.encode() + struct.pack('>HBBH', length & 0xffff, ver, sub, comp)


def private_header(creator, nsec, eid, plid=None, obmc=1):
    body = bytes.fromhex('2024031512304500') + bytes.fromhex('2024031512304612')
    body += creator.encode()[:1] + b'\0\0' + bytes([nsec])
    body += be(obmc, 4) + be(0x0102030405060708, 8)
    body += be(eid if plid is None else plid, 4) + be(eid, 4)
    return sec_hdr('PH', 8 + len(body), 1, 0, 0x1000) + body


def user_header(sev=0x40, action=0x2000, subsystem=0x10):
    body = bytes([subsystem, 3, sev, 0]) + be(0, 4) + bytes([0, 0])
    body += be(action, 2) + be(0, 4)
    return sec_hdr('UH', 8 + len(body), 1, 0, 0x1000) + body


def fru_identity(flags, pn=b'', ccin=b'', sn=b''):
    body = b''
    if flags & 0x0A:
        body += pn.ljust(8, b'\0')[:8]
    if flags & 0x04:
        body += ccin.ljust(4, b'\0')[:4]
    if flags & 0x01:
        body += sn.ljust(12, b'\0')[:12]
    return b'ID' + bytes([4 + len(body), flags]) + body


def pce_identity(name=b'pcename'):
    body = b'9105-22A'.ljust(8, b'\0') + b'SN1234567'.ljust(12, b'\0') + name
    return b'PE' + bytes([4 + len(body), 0]) + body


def mru(ids):
    body = be(0, 4)
    for i in ids:
        body += be(0x48, 4) + be(i, 4)
    return b'MR' + bytes([4 + len(body), len(ids)]) + body


def callout(priority, loc, subs):
    loc = loc + b'\0' * (-len(loc) % 4)
    body = loc + b''.join(subs)
    return bytes([4 + len(body), 0x20, priority, len(loc)]) + body


def callouts(cos):
    body = b''.join(cos)
    return bytes([0xC0, 0]) + be((4 + len(body)) // 4, 2) + body


def src_section(ascii_str, words, with_callouts=None, wordcount=9, sid='PS',
                src_flags=0, comp=0x1000):
    body = bytes([2, src_flags | (1 if with_callouts is not None else 0), 0,
                  wordcount]) + be(0, 2) + be(72, 2)
    for w in words:
        body += be(w, 4)
    body += ascii_str.encode('latin-1').ljust(32, b' ')[:32]
    if with_callouts is not None:
        body += with_callouts
    return sec_hdr(sid, 8 + len(body), 1, 1, comp) + body


def user_data(comp, sub, ver, data):
    return sec_hdr('UD', 8 + len(data), ver, sub, comp) + data


def ext_user_data(comp, sub, ver, creator, data):
    return sec_hdr('ED', 12 + len(data), ver, sub, comp) + \
        creator.encode()[:1] + b'\0\0\0' + data


def pel(creator, eid, sections, sev=0x40, action=0x2000, nsec=None):
    n = 2 + len(sections) if nsec is None else nsec
    return private_header(creator, n, eid) + user_header(sev, action) + \
        b''.join(sections)


def hexwords(sig=None, w9=0):
    a, b, c = sig or (0x20DA0020, 0x00010001, 0xABCD0105)
    return [0x00000255, 0x2E2D0010, 0x01020304, 0x03000000, a, b, c, w9]


def std_callouts(procs=(b'BMC0001',)):
    cos = [callout(ord('H'), b'U78DA.ND1-P0', [fru_identity(0x1D, b'PN12345', b'CCIN', b'SN00112233')]),
           callout(ord('M'), b'', [fru_identity(0x22, procs[0])]),
           callout(ord('L'), b'Ufcs-P1-C2', [fru_identity(0x28, b'PART'), pce_identity(), mru([0x10001, 0x20002])])]
    for p in procs[1:]:
        cos.append(callout(ord('A'), b'', [fru_identity(0x22, p)]))
    return callouts(cos)


def build_pels(payloads):
    """returns {dirname: {filename: bytes}}"""
    r = random.Random(99)
    good = {}
    n = [0]

    def add(blob, tag):
        n[0] += 1
        good['%03d_%s.pel' % (n[0], tag)] = blob
        return blob

    eid = [0x50000000]

    def nexteid():
        eid[0] += 1
        return eid[0]

    # BMC PELs with hw-diags SRCs + user data
    for i, ref in enumerate(['BD50E510', 'BD50E500', 'BD8D2030', 'BD503000',
                             'BD501000', 'BD502000', 'BD504000', 'BD505000',
                             'BD506000', 'BC8A1234', 'BCEE0001', 'BCNN0001',
                             'BCXX0001', '1100E510', 'BD50E510', 'BD503000']):
        sig = r.choice([None, (0x30DA0010, 0x22223344, 0x55556677),
                        (0x0000ABCD, 0x00010001, 0xABCD0105),
                        (0x20DA0020, 0x00010011, 0x12340101),
                        (0x20DA0020, 0x00010003, 0xFFFF0102)])
        w9 = r.choice([0, 0, 0xDEADBEEF, 0xE, 0xF])
        secs = [src_section(ref, hexwords(sig, w9),
                            std_callouts() if i % 2 == 0 else None,
                            wordcount=r.choice([9, 9, 9, 4, 2, 1, 0]))]
        for _ in range(r.choice([1, 2, 3])):
            sub, blob = r.choice(payloads)
            if blob:
                secs.append(user_data(0xE500, sub & 0xff, 1, blob))
        secs.append(user_data(0x2000, r.choice([1, 2, 3, 4]), 1, r.choice(TEXTS[:5])))
        if i % 3 == 0:
            sub, blob = r.choice(payloads)
            if blob:
                secs.append(ext_user_data(0xE500, sub & 0xff, 1, 'O', blob))
        add(pel('O', nexteid(), secs), 'bmc')

    # every hw-diags payload once, four per PEL
    ps = [p for p in payloads if p[1]]
    for i in range(0, len(ps), 4):
        secs = [src_section('BD50E510', hexwords())]
        secs += [user_data(0xE500, s & 0xff, 1, b) for s, b in ps[i:i + 4]]
        add(pel('O', nexteid(), secs), 'hwd')

    # other creators: plug-in loading paths
    for cr in ['B', 'H', 'K', 'L', 'S', 'T', 'M', 'X', 'B', 'H', 'K', 'L', 'T', 'T']:
        ref = r.choice(['BC8A1234', 'BCEE0001', 'B7001111', 'BD503000'])
        procs = r.choice([(b'BMC0001',), (b'EFAIL', b'OK'), (b'JSON', b'NONE', b'ZNULL'),
                          (b'BMC0002', b'BMC9999')])
        secs = [src_section(ref, hexwords(), std_callouts(procs))]
        for comp in r.sample([0x0100, 0x0200, 0x0300, 0x0400, 0x0500, 0x0600, 0x0800], 4):
            secs.append(user_data(comp, r.choice([0, 1, 2, 3, 4, 5, 6, 7, 8, 10]), 1,
                                  bytes(r.getrandbits(8) for _ in range(r.choice([1, 8, 20])))))
        secs.append(user_data(0x0300, 10, 2, b'abc'))
        secs.append(ext_user_data(0x0300, r.choice([1, 2, 3, 4, 10]), 1, r.choice('BOH'), b'\x01\x02\x03'))
        secs.append(src_section(ref, hexwords(), None, sid='SS'))
        add(pel(cr, nexteid(), secs), 'cr' + cr)

    # not serviceable / hidden / informational
    add(pel('O', nexteid(), [src_section('BD50E510', hexwords())], sev=0x00, action=0x0000), 'info')
    add(pel('O', nexteid(), [src_section('BD50E510', hexwords())], sev=0x40, action=0x6000), 'hidden')
    add(pel('O', nexteid(), [src_section('BD503000', hexwords())], sev=0x51, action=0x2000), 'crit')

    dirs = {'good': good}

    # truncated / corrupted / random variants
    bad = {}
    names = sorted(good)
    for i in range(70):
        blob = good[r.choice(names)]
        kind = i % 3
        if kind == 0:
            v = blob[:r.randrange(40, len(blob))]
        elif kind == 1:
            m = bytearray(blob)
            for _ in range(r.choice([1, 2, 4, 8])):
                m[r.randrange(72, len(m))] = r.getrandbits(8)
            v = bytes(m)
        else:
            m = bytearray(blob)
            pos = r.randrange(72, len(m))
            m[pos:pos + r.choice([1, 4, 16])] = bytes(r.getrandbits(8) for _ in range(r.choice([0, 3, 9])))
            v = bytes(m)
        bad['%03d_bad%d.pel' % (i, kind)] = v
    for i in range(6):
        bad['rnd%d.pel' % i] = bytes(r.getrandbits(8) for _ in range(r.choice([0, 10, 100, 400])))
    bad['zz_short_words.pel'] = pel('O', nexteid(), [src_section('BD50E510', hexwords(), wordcount=200)])
    bad['zz_nsec.pel'] = pel('O', nexteid(), [src_section('BD50E510', hexwords())], nsec=9)
    bad['zz_empty_ud.pel'] = pel('O', nexteid(), [user_data(0xE500, 1, 1, b'')])
    dirs['bad'] = bad

    # PELs whose plug-ins terminate the interpreter
    dirs['exit_p'] = {
        '001_ok.pel': pel('O', nexteid(), [src_section('BD50E510', hexwords())]),
        '002_psrc.pel': pel('P', nexteid(), [src_section('BD50E510', hexwords(), std_callouts())]),
        '003_ok.pel': pel('O', nexteid(), [src_section('BD503000', hexwords())]),
        '004_psrc.pel': pel('P', nexteid(), [src_section('BC503000', hexwords()),
                                             user_data(0x0700, 1, 1, b'abcd')]),
    }
    dirs['exit_t'] = {
        '000_t.pel': pel('T', nexteid(), [src_section('BD50E510', hexwords(), std_callouts((b'OK', b'JSON')))]),
        '003_t.pel': pel('T', nexteid(), [src_section('BDQQ0000', hexwords())]),
        '004_ok.pel': pel('O', nexteid(), [src_section('BD50E510', hexwords())]),
        '001_t.pel': pel('T', nexteid(), [src_section('BD50E510', hexwords(), std_callouts((b'OK', b'QUIT', b'OK2')))]),
        '002_ok.pel': pel('O', nexteid(), [src_section('BD503000', hexwords())]),
    }
    dirs['exit_ud'] = {
        '001_ok.pel': pel('B', nexteid(), [user_data(0x0300, 7, 1, b'abcd')]),
        '002_exit.pel': pel('B', nexteid(), [user_data(0x0300, 9, 1, b'abcd')]),
        '003_exit.pel': pel('B', nexteid(), [user_data(0x0700, 9, 1, b'abcd')]),
        '004_ok.pel': pel('B', nexteid(), [user_data(0x0300, 7, 1, b'abcd')]),
    }
    return dirs


# ---------------------------------------------------------------------------
# Running and comparing
# ---------------------------------------------------------------------------

def norm_err(text):
    """Tracebacks contain paths and line numbers of the tree: keep only the
    unindented lines (header and the final 'Type: message' lines)."""
    if 'Traceback (most recent call last)' not in text:
        return text
    return '\n'.join(l for l in text.split('\n') if not l.startswith(' '))


def snapshot(top):
    out = []
    for root, dirs, files in os.walk(top):
        dirs.sort()
        for f in sorted(files):
            path = os.path.join(root, f)
            with open(path, 'rb') as fp:
                digest = hashlib.sha256(fp.read()).hexdigest()
            out.append((os.path.relpath(path, top), digest))
    return out


def run(side_dir, argv, opt):
    env = dict(os.environ)
    env['PYTHONPATH'] = os.path.join(side_dir, 'modules')
    env['PYTHONDONTWRITEBYTECODE'] = '1'
    env['PYTHONHASHSEED'] = '0'
    cmd = [PY] + (['-O'] if opt else []) + argv
    p = subprocess.run(cmd, cwd=side_dir, env=env, stdout=subprocess.PIPE,
                       stderr=subprocess.PIPE, timeout=600)
    out = p.stdout.decode('utf-8', 'replace').replace(side_dir, '<SIDE>')
    err = p.stderr.decode('utf-8', 'replace').replace(side_dir, '<SIDE>')
    return (p.returncode, out, norm_err(err))


def main():
    if len(sys.argv) != 3:
        sys.exit(__doc__)
    roots = [os.path.abspath(a) for a in sys.argv[1:3]]
    work = tempfile.mkdtemp(prefix='dc_', dir=HERE)
    failures = []
    ncases = 0
    try:
        payloads = ud_oe500_payloads()
        sessions = {
            'api_parserdata.json': [('parserdata', parserdata_cases())],
            'api_oe500.json': [('ud_oe500', ud_oe500_cases(payloads)),
                               ('src_oe500', src_oe500_cases())],
            'api_loader_a.json': [('osrc', osrc_cases(1)), ('src', src_cases(2)),
                                  ('pud', pud_cases(3, payloads))],
            'api_loader_b.json': [('pud', pud_cases(4, payloads)),
                                  ('src', src_cases(5)), ('osrc', osrc_cases(6)),
                                  ('ud_oe500', ud_oe500_cases(payloads)[:80])],
            'api_loader_c.json': [('src', src_cases(7)), ('osrc', osrc_cases(8)),
                                  ('pud', pud_cases(9, payloads)),
                                  ('src', src_cases(10))],
        }
        pel_dirs = build_pels(payloads)

        sides = []
        for name, root in zip(('a', 'b'), roots):
            side = os.path.join(work, name)
            shutil.copytree(os.path.join(root, 'modules'),
                            os.path.join(side, 'modules'),
                            ignore=shutil.ignore_patterns('__pycache__'))
            add_fixtures(os.path.join(side, 'modules'))
            with open(os.path.join(side, 'driver.py'), 'w') as fp:
                fp.write(DRIVER)
            for fname, content in sessions.items():
                with open(os.path.join(side, fname), 'w') as fp:
                    json.dump(content, fp)
            for dname, files in pel_dirs.items():
                os.makedirs(os.path.join(side, 'pels', dname))
                for fname, blob in files.items():
                    with open(os.path.join(side, 'pels', dname, fname), 'wb') as fp:
                        fp.write(blob)
            with open(os.path.join(side, 'exclude.txt'), 'w') as fp:
                fp.write('BD50E510\nBC8A1234\n')
            sides.append(side)

        def check(label, argv, opt, weight=1, prepare=None):
            nonlocal ncases
            results = []
            for side in sides:
                if prepare:
                    prepare(side)
                res = run(side, argv, opt)
                results.append(res + (snapshot(os.path.join(side, 'pels')) +
                                      snapshot(os.path.join(side, 'out'))
                                      if os.path.isdir(os.path.join(side, 'out'))
                                      else snapshot(os.path.join(side, 'pels')),))
            ncases += weight
            dump = os.environ.get('DIFFCHECK_DUMP')
            if dump:
                with open(os.path.join(dump, 'log.txt'), 'a') as fp:
                    fp.write('##### %s opt=%s rc=%s\n%s\n--- stderr\n%s\n--- files %d\n'
                             % (label, opt, results[0][0], results[0][1],
                                results[0][2], len(results[0][3])))
            if results[0] != results[1]:
                failures.append(label)
                print('DIFFERENCE in', label, 'opt' if opt else '')
                for idx, what in enumerate(('exit status', 'stdout', 'stderr', 'files')):
                    if results[0][idx] != results[1][idx]:
                        print('  ', what, 'differs')
                        if idx in (1, 2):
                            la = results[0][idx].split('\n')
                            lb = results[1][idx].split('\n')
                            for i in range(max(len(la), len(lb))):
                                xa = la[i] if i < len(la) else '<eof>'
                                xb = lb[i] if i < len(lb) else '<eof>'
                                if xa != xb:
                                    print('     pristine:', xa[:600])
                                    print('     patched :', xb[:600])
                                    break
                        else:
                            print('     pristine:', str(results[0][idx])[:300])
                            print('     patched :', str(results[1][idx])[:300])
            return results[0]

        # --- direct API sessions ----------------------------------------
        for fname, content in sessions.items():
            weight = sum(len(c) for _, c in content)
            for opt in (False, True):
                res = check('session ' + fname, ['driver.py', fname], opt, weight)
                if '=== done' not in res[1] or 'SESSION DIED' in res[1]:
                    failures.append('driver problem in ' + fname)
                    print('driver problem in', fname, res[0], res[1][-500:], res[2][-2000:])

        # --- peltool command lines --------------------------------------
        tool = os.path.join('modules', 'pel', 'peltool', 'peltool.py')

        def fresh_out(side):
            shutil.rmtree(os.path.join(side, 'out'), ignore_errors=True)
            os.makedirs(os.path.join(side, 'out'))

        for d in ('good', 'bad', 'exit_p', 'exit_t', 'exit_ud'):
            p = os.path.join('pels', d)
            for extra in ([], ['-P'], ['-E'], ['-E', '-r'], ['-x', '-E'],
                          ['-H', '-O'], ['-N', '-S', 'Informational']):
                for opt in ((False, True) if extra in ([], ['-E']) else (False,)):
                    check('-a %s %s' % (d, extra), [tool, '-p', p, '-a'] + extra, opt)
            for extra in ([], ['-E'], ['-E', '-P'], ['-E', '-r', '-e', '.pel']):
                check('-l %s %s' % (d, extra), [tool, '-p', p, '-l'] + extra, False)
            check('-n ' + d, [tool, '-p', p, '-n', '-E'], False)
            check('--src ' + d, [tool, '-p', p, '--src', 'BD50', '-E'], False)
            check('--src-exclude ' + d, [tool, '-p', p, '--src-exclude', 'exclude.txt', '-E'], True)
            check('--plid ' + d, [tool, '-p', p, '--plid', '0x50000003', '-E'], False)
            check('--id ' + d, [tool, '-p', p, '-i', '001_'.ljust(8, 'x')], False)
            check('--bmc-id ' + d, [tool, '-p', p, '--bmc-id', '1'], False)
            for extra in ([], ['-P'], ['-E']):
                for opt in (False, True):
                    check('-j %s %s' % (d, extra),
                          [tool, '-p', p, '-j', '-o', 'out'] + extra, opt,
                          prepare=fresh_out)

        r = random.Random(7)
        files = []
        for d in sorted(pel_dirs):
            names = sorted(pel_dirs[d])
            picked = names if len(names) <= 6 else r.sample(names, 26 if d == 'good' else 22)
            files += [os.path.join('pels', d, n) for n in picked]
        for i, f in enumerate(files):
            check('-f ' + f, [tool, '-f', f], i % 4 == 0)
            if i % 3 == 0:
                check('-f -P ' + f, [tool, '-f', f, '-P'], False)
            if i % 5 == 0:
                check('-f -x ' + f, [tool, '-f', f, '-x'], True)
        check('-f missing', [tool, '-f', 'pels/none.pel'], False)

        # --- -j -c removes the decoded originals (last: modifies the input)
        for d in ('exit_ud', 'bad', 'good'):
            check('-j -c ' + d, [tool, '-p', os.path.join('pels', d), '-j',
                                 '-o', 'out', '-c'], False, prepare=fresh_out)
            check('-a after -c ' + d, [tool, '-p', os.path.join('pels', d), '-a', '-E'], False)
    finally:
        shutil.rmtree(work, ignore_errors=True)

    if failures:
        print('DIFFERENT (%d of %d cases): %s' % (len(failures), ncases, failures[:20]))
        sys.exit(1)
    print('IDENTICAL (%d cases)' % ncases)
    sys.exit(0)


if __name__ == '__main__':
    main()
