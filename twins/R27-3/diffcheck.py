#!/usr/bin/env python3
"""
Differential check for the PEL section decoders / peltool front end.

usage: diffcheck.py <pristine_root> <patched_root>

A deterministic corpus of binary PELs (well-formed, truncated, corrupted and
random) is generated.  For both source trees the same work is done in separate
python processes (PYTHONPATH points into the respective tree):

  * a worker process imports the package and drives the section decoders, the
    DataStream, the user data parser, generate*/sectionFun/parsePEL/
    parsePELSummary/buildOutput directly, recording return values, raised
    exceptions, captured stdout/stderr, the stream position and the decoder
    object state.  The worker is run with and without -O and with and
    without a fake pel_registry package on the path.
  * the peltool command line is run with many option combinations; stdout,
    stderr, exit status and the files created/removed are recorded.

All records of both trees are compared.  Exit 0 and "IDENTICAL (<n> cases)"
if everything matches, exit 1 otherwise.
"""
import contextlib
import hashlib
import io
import json
import os
import random
import shutil
import struct
import subprocess
import sys
import tempfile

PY = sys.executable

# --------------------------------------------------------------------------
# corpus generation
# --------------------------------------------------------------------------


def hdr(sid, length, ver=1, sub=0, comp=0x2000):
    return struct.pack('>HHBBH', sid & 0xFFFF, length & 0xFFFF, ver & 0xFF,
                       sub & 0xFF, comp & 0xFFFF)


def ts(rng=None):
    if rng is None:
        return bytes.fromhex('2022030818402755')
    return bytes([rng.choice([0x19, 0x20]), rng.randrange(0x100),
                  rng.randrange(0x13), rng.randrange(0x32), rng.randrange(0x24),
                  rng.randrange(0x60), rng.randrange(0x60), rng.randrange(256)])


def sec_ph(creator=b'O', count=2, obmc=1, cver=0x0102030405060708,
           plid=0x50000001, eid=0x50000001, sid=0x5048, comp=0x2000,
           ver=1, sub=0, t1=None, t2=None):
    body = (t1 or ts()) + (t2 or ts()) + creator[:1] + b'\x00\x00' + \
        bytes([count & 0xFF]) + struct.pack('>IQII', obmc, cver, plid, eid)
    return hdr(sid, 8 + len(body), ver, sub, comp) + body


def sec_uh(subsys=0x10, scope=3, sev=0x40, etype=0, domain=0, vector=0,
           action=0xA800, states=0, sid=0x5548, comp=0x2000, ver=1, sub=0):
    body = struct.pack('>BBBBIBBHI', subsys, scope, sev, etype, 0, domain,
                       vector, action, states)
    return hdr(sid, 8 + len(body), ver, sub, comp) + body


def fru_identity(flags, pn=b'BMC0001\x00', ccin=b'2E2D', sn=b'YL30BG123456'):
    body = b''
    if flags & 0x08 or flags & 0x02:
        body += pn[:8].ljust(8, b'\0')
    if flags & 0x04:
        body += ccin[:4].ljust(4, b'\0')
    if flags & 0x01:
        body += sn[:12].ljust(12, b'\0')
    return struct.pack('>HBB', 0x4944, 4 + len(body), flags) + body


def callout(priority=ord('H'), loc=b'U78DA.ND1.1234567-P0\x00\x00\x00\x00',
            fruflags=0x1A):
    sub = fru_identity(fruflags)
    size = 4 + len(loc) + len(sub)
    return bytes([size, 0, priority, len(loc)]) + loc + sub


def sec_src(sid=0x5053, ascii_=b'BD8D1002', flags=0, wordcount=9,
            words=None, callouts=None, comp=0x2000, ver=1, sub=1):
    words = words or [0x02000055, 0x2E2D0010, 0, 0x23000000, 1, 2, 3, 4]
    body = bytes([2, flags, 0, wordcount]) + struct.pack('>HH', 0, 72)
    body += b''.join(struct.pack('>I', w & 0xFFFFFFFF) for w in words)
    body += ascii_[:32].ljust(32, b' ')
    if callouts is not None:
        co = b''.join(callouts)
        body += bytes([0xC0, 0]) + struct.pack('>H', (4 + len(co)) // 4) + co
    return hdr(sid, 8 + len(body), ver, sub, comp) + body


def sec_eh(mt=b'9105-22A', sn=b'1234567\0\0\0\0\0', fw=b'fw1020.00-1',
           subfw=b'sub-fw-1', symptom=b'BD8D1002_2E2D0010\0\0\0',
           comp=0x2000, ver=1, sub=0, t=None, symlen=None):
    body = mt[:8].ljust(8, b'\0') + sn[:12].ljust(12, b'\0') + \
        fw[:16].ljust(16, b'\0') + subfw[:16].ljust(16, b'\0') + \
        b'\0\0\0\0' + (t or ts()) + b'\0\0\0' + \
        bytes([len(symptom) if symlen is None else symlen]) + symptom
    return hdr(0x4548, 8 + len(body), ver, sub, comp) + body


def sec_mt(mt=b'9105-22A', sn=b'13E8D1X\0\0\0\0\0', comp=0x2000, ver=1, sub=0):
    body = mt[:8].ljust(8, b'\0') + sn[:12].ljust(12, b'\0')
    return hdr(0x4D54, 8 + len(body), ver, sub, comp) + body


def sec_ud(data=b'{"a": 1}', comp=0x2000, ver=1, sub=1, sid=0x5544, length=None):
    return hdr(sid, (8 + len(data)) if length is None else length,
               ver, sub, comp) + data


def sec_ed(creator=b'O', data=b'{"b": [1, 2]}', comp=0x2000, ver=1, sub=1,
           length=None):
    body = creator[:1] + b'\0\0\0' + data
    return hdr(0x4544, (8 + len(body)) if length is None else length,
               ver, sub, comp) + body


def sec_lp(part=0x0102, name=b'lpar-one\0\0\0\0', lps=(1, 2, 3), logid=0x99,
           comp=0x4c50, ver=1, sub=0, count=None, namelen=None):
    body = struct.pack('>HBBI', part, len(name) if namelen is None else namelen,
                       len(lps) if count is None else count, logid) + name
    body += b''.join(struct.pack('>H', x) for x in lps)
    if len(lps) % 2:
        body += b'\0\0'
    return hdr(0x4C50, 8 + len(body), ver, sub, comp) + body


def pel(creator, sections, uh_kwargs=None, ph_kwargs=None):
    ph_kwargs = dict(ph_kwargs or {})
    ph_kwargs.setdefault('count', 2 + len(sections))
    return sec_ph(creator=creator, **ph_kwargs) + \
        sec_uh(**(uh_kwargs or {})) + b''.join(sections)


TEXTS = [
    b'hello world\nsecond line\n\x01ctl\x7f\n\nlast',
    b'  padded text \n\x00\x00\x00',
    b'one line only',
    b'\n\n\n',
    b'',
    b'tab\there\r\nwin\r\n',
    'unicode \u00e9\u4e2d text\nline2 \u00ff'.encode(),
    b'nul\x00inside\nnext\x00\x00',
    b'trailing newline then nul\n\x00\x00',
    b'\xff\xfe invalid utf8',
]

JSONS = [
    b'{"a": 1}', b'{"k": {"n": [1, 2, {"x": "y"}]}, "s": "t"}\x00\x00\x00',
    b'[1, 2, 3]', b'"just a string"', b'12', b'null', b'true', b'{bad json',
    b'', b'   {"sp": "aced"}   ', b'{"Section Version": "clash"}',
    b'{"a": 1}{"b": 2}', b'\xff\xfe', b'{"u": "\\u00e9"}',
]


def build_corpus():
    rng = random.Random(0x52323727)
    pels = []          # (name, bytes)

    def add(name, blob):
        pels.append((name, bytes(blob)))

    # --- well formed ---
    full_sections = [
        sec_src(),
        sec_eh(),
        sec_mt(),
        sec_ud(JSONS[1], sub=1),
        sec_ud(TEXTS[0], sub=3),
        sec_ud(b'\x01\x02\x03\x04cbor', sub=2),
        sec_ud(b'custom-data-123', sub=4),
        sec_ud(b'other-comp', comp=0x1000, sub=9),
        sec_ed(),
        sec_ed(creator=b'B', data=b'hostboot data', comp=0x0100, sub=5),
        sec_lp(),
        sec_ud(b'dump location', sid=0x4448),
        sec_ud(b'X' * 33, sid=0x4D49, comp=0x3100),
    ]
    add('full_bmc', pel(b'O', full_sections))
    add('full_bmc_callouts', pel(b'O', [
        sec_src(flags=1, callouts=[callout(), callout(priority=ord('M'), fruflags=0x28)]),
        sec_src(sid=0x5353, ascii_=b'BD8D1003'),
        sec_src(sid=0x5353, ascii_=b'11001510', wordcount=5),
        sec_eh(), sec_mt()]))
    add('minimal', pel(b'O', []))
    add('hostboot', pel(b'B', [sec_src(ascii_=b'BC8A2001', comp=0x0500),
                               sec_eh(comp=0x0500), sec_mt(comp=0x0500),
                               sec_ud(b'\x00\x01hb-ud', comp=0x0500, sub=7)],
                        uh_kwargs=dict(comp=0x0500, sev=0x20, action=0x2000)))
    add('phyp', pel(b'H', [sec_src(ascii_=b'B7001111', comp=0x4858),
                           sec_eh(comp=0x4858), sec_mt(comp=0x4800),
                           sec_lp(comp=0x4c50),
                           sec_lp(lps=(7, 8), name=b''),
                           sec_ud(b'phyp-user-data!!', comp=0x4856, sub=2)],
                    uh_kwargs=dict(comp=0x4858, sev=0x10, action=0x0000),
                    ph_kwargs=dict(comp=0x4858)))
    add('io_drawer', pel(b'M', [sec_src(ascii_=b'C0001234', comp=0x2c00),
                                sec_ud(bytes(range(64)), comp=0x2c00, sub=1),
                                sec_ud(bytes(range(200)), comp=0x2c00, sub=2, ver=2),
                                sec_ud(bytes(rng.randrange(256) for _ in range(96)),
                                       comp=0x2c00, sub=3),
                                sec_ud(b'zz', comp=0x2c00, sub=77)]))
    add('hwdiags', pel(b'O', [sec_src(ascii_=b'BDE50001', comp=0xe500),
                              sec_ud(struct.pack('>I', 1) + bytes(12), comp=0xe500, sub=1),
                              sec_ud(struct.pack('>I', 0), comp=0xe500, sub=2),
                              sec_ud(b'\x00' * 5, comp=0xe500, sub=1),
                              sec_ed(creator=b'O', comp=0xe500, data=struct.pack('>I', 0), sub=1)],
                       uh_kwargs=dict(comp=0xe500)))
    add('unknown_creator', pel(b'Z', [sec_src(), sec_ud(b'zzz', comp=0xABCD)]))
    add('nonascii_creator', pel(b'\xc3', [sec_src()]))
    add('nul_creator', pel(b'\x00', [sec_ud(b'abc')]))

    for i, t in enumerate(TEXTS):
        add('text_%d' % i, pel(b'O', [sec_ud(t, sub=3), sec_ed(data=t, sub=3)]))
    for i, j in enumerate(JSONS):
        add('json_%d' % i, pel(b'O', [sec_ud(j, sub=1), sec_ed(data=j, sub=1),
                                       sec_ud(j, sub=1, comp=0x1234)]))

    # severity / action flag matrix
    sevs = [0x00, 0x10, 0x20, 0x40, 0x41, 0x51, 0x60, 0x71, 0xFF]
    actions = [0x0000, 0x8000, 0x4000, 0x2000, 0x6000, 0xA800, 0xC000, 0xFFFF, 0x0800]
    n = 0
    for sev in sevs:
        for act in actions:
            add('uh_%02x_%04x' % (sev, act),
                pel(b'O', [sec_src(ascii_=b'BD%06X' % n)],
                    uh_kwargs=dict(sev=sev, action=act, subsys=rng.choice([0x10, 0x7A, 0xEE]),
                                   scope=rng.randrange(6), etype=rng.choice([0, 1, 2, 8, 0x10, 0xE0]),
                                   states=rng.choice([0, 1, 0x0203, 0xFFFF, 0x00030002])),
                    ph_kwargs=dict(plid=0x50000000 + n, eid=0x50001000 + n, obmc=n + 10)))
            n += 1

    # duplicate section names / impacted partition variants
    add('dups', pel(b'O', [sec_ud(b'{"n": 0}'), sec_mt(), sec_ud(b'{"n": 1}'),
                           sec_mt(), sec_ud(b'{"n": 2}'), sec_eh(), sec_lp(),
                           sec_lp(lps=()), sec_lp(lps=(5,), name=b'x\0\0\0')]))
    add('lp_variants', pel(b'H', [sec_lp(lps=tuple(range(9))),
                                  sec_lp(name=b'\xff\xfe\0\0'),
                                  sec_lp(lps=(1, 2), count=3)]))
    add('eh_variants', pel(b'O', [sec_eh(symptom=b''), sec_eh(symptom=b'\0\0\0\0'),
                                  sec_eh(symptom=b'ABCD', symlen=9),
                                  sec_eh(mt=b'\xe9\xe9\xe9'), sec_eh(t=b'\xAB' * 8)]))
    add('bad_ph_id', sec_ph(sid=0x1234) + sec_uh())
    add('bad_uh_id', sec_ph() + sec_uh(sid=0x4321))
    add('count_too_big', pel(b'O', [sec_src()], ph_kwargs=dict(count=9)))
    add('count_small', pel(b'O', [sec_src(), sec_mt()], ph_kwargs=dict(count=3)))
    add('count_zero', pel(b'O', [sec_src()], ph_kwargs=dict(count=0)))
    add('ud_len_short', pel(b'O', [sec_ud(b'abcdefgh', length=4)]))
    add('ud_len_8', pel(b'O', [sec_ud(b'', length=8), sec_mt()]))
    add('ud_len_7', pel(b'O', [sec_ud(b'', length=7), sec_mt()]))
    add('ed_len_12', pel(b'O', [sec_ed(data=b'', length=12), sec_mt()]))
    add('ed_len_11', pel(b'O', [sec_ed(data=b'', length=11), sec_mt()]))
    add('ud_len_long', pel(b'O', [sec_ud(b'abc', length=400)]))
    add('empty', b'')
    add('one_byte', b'P')

    base = dict(pels)

    # --- truncations ---
    for name in ('full_bmc', 'phyp', 'dups'):
        blob = base[name]
        step = 1 if name == 'full_bmc' else 3
        for cut in range(0, len(blob), step):
            add('%s_cut%d' % (name, cut), blob[:cut])

    # --- corruptions ---
    for name in ('full_bmc', 'full_bmc_callouts', 'phyp', 'io_drawer', 'hwdiags', 'dups'):
        blob = base[name]
        for k in range(40):
            b = bytearray(blob)
            for _ in range(rng.choice([1, 1, 2, 4, 16])):
                pos = rng.randrange(len(b))
                b[pos] = rng.choice([0, 0xFF, rng.randrange(256), b[pos] ^ (1 << rng.randrange(8))])
            add('%s_mut%d' % (name, k), b)
        # corrupt mostly the headers
        for k in range(25):
            b = bytearray(blob)
            pos = rng.randrange(0, 80)
            b[pos] = rng.randrange(256)
            add('%s_hmut%d' % (name, k), b)

    # --- random ---
    for k in range(40):
        add('rand_%d' % k, bytes(rng.randrange(256) for _ in range(rng.choice([3, 17, 48, 72, 150, 400]))))
    for k in range(40):
        # valid headers followed by random sections
        secs = []
        for _ in range(rng.randrange(1, 6)):
            sid = rng.choice([0x5053, 0x5353, 0x4548, 0x4D54, 0x5544, 0x4544, 0x4C50,
                              0x4448, rng.randrange(0x10000)])
            body = bytes(rng.randrange(256) for _ in range(rng.choice([0, 4, 20, 72, 76, 100])))
            secs.append(hdr(sid, 8 + len(body), rng.randrange(4), rng.randrange(8),
                            rng.choice([0x2000, 0xe500, 0x2c00, rng.randrange(0x10000)])) + body)
        add('randsec_%d' % k, pel(rng.choice([b'O', b'B', b'H', b'M', b'T', b'?']), secs,
                                  uh_kwargs=dict(sev=rng.choice(sevs), action=rng.choice(actions))))
    return pels


CONFIGS = [
    {},
    {'allow_plugins': False},
    {'every_pel': True},
    {'every_pel': True, 'allow_plugins': False},
    {'serviceable': True, 'only': True},
    {'non_serviceable': True},
    {'hidden': True, 'only': True, 'severities': [4]},
    {'critSysTerm': True, 'only': True},
    {'severities': [0, 1, 7]},
    {'severities': [2], 'only': True, 'serviceable': True},
    {'plid': '50000001'},
]

# --------------------------------------------------------------------------
# worker: runs inside one source tree
# --------------------------------------------------------------------------


def worker(root, corpus_file, out_file, tmpdir):
    import importlib
    import types
    from collections import OrderedDict

    with open(corpus_file) as f:
        corpus = [(n, bytes.fromhex(h)) for n, h in json.load(f)]

    # fake user data parser plugins (found through sys.modules by import_module)
    def fake(name, fn):
        full = 'udparsers.%s.%s' % (name, name)
        pkg = types.ModuleType('udparsers.%s' % name)
        pkg.__path__ = []
        mod = types.ModuleType(full)
        mod.parseUDToJson = fn
        sys.modules['udparsers.%s' % name] = pkg
        sys.modules[full] = mod

    def raise_(exc):
        def f(sub, ver, mv):
            raise exc
        return f
    fake('t1000', lambda sub, ver, mv: None)
    fake('t1001', lambda sub, ver, mv: 'null')
    fake('t1002', lambda sub, ver, mv: 'not json at all')
    fake('t1003', raise_(ValueError('boom %d')))
    fake('t1004', raise_(ImportError('late import failure')))
    fake('t1005', lambda sub, ver, mv: json.dumps({'sub': sub, 'ver': ver, 'n': len(mv)}))
    fake('t1006', lambda sub, ver, mv: json.dumps([sub, bytes(mv).hex()]))
    fake('t1007', lambda sub, ver, mv: '')
    fake('t1008', lambda sub, ver, mv: json.dumps(None) + ' ')

    from pel.datastream import DataStream
    from pel.peltool import peltool as pt
    from pel.peltool.config import Config
    from pel.peltool.private_header import PrivateHeader, getTimestamp
    from pel.peltool.user_header import UserHeader
    from pel.peltool.extend_user_header import ExtendedUserHeader
    from pel.peltool.failing_mtms import FailingMTMS
    from pel.peltool.imp_partition import ImpactedPartition
    from pel.peltool.user_data import UserData
    from pel.peltool.ext_user_data import ExtUserData
    from pel.peltool.default import Default
    from pel.peltool.parse_user_data import ParseUserData, UserDataFormat
    from pel.peltool import parse_user_data as pud

    records = []
    rootstr = os.path.realpath(root)

    def norm(s):
        return s.replace(rootstr, '<ROOT>').replace(root, '<ROOT>')

    def state(obj):
        d = {}
        for k, v in sorted(vars(obj).items()):
            if isinstance(v, DataStream):
                d[k] = ['stream', v.index, v.size]
            elif isinstance(v, memoryview):
                d[k] = ['mv', bytes(v).hex()]
            else:
                d[k] = repr(v)
        return d

    def run(case, fn, *streams, objs=None):
        so, se = io.StringIO(), io.StringIO()
        rec = {'case': case}
        try:
            with contextlib.redirect_stdout(so), contextlib.redirect_stderr(se):
                r = fn()
            rec['ret'] = repr(r) if not isinstance(r, (dict, list, tuple, str, int, type(None))) \
                else json.dumps(r, default=lambda o: ['obj', type(o).__name__, state(o)])
            rec['rettype'] = type(r).__name__
        except SystemExit as e:
            rec['exit'] = repr(e.code)
        except BaseException as e:
            rec['exc'] = [type(e).__name__, norm(str(e))]
        rec['out'] = norm(so.getvalue())
        rec['err'] = norm(se.getvalue())
        rec['idx'] = [s.index for s in streams]
        if objs:
            rec['objs'] = [state(o) for o in objs if o is not None]
        records.append(rec)
        return rec

    def mkconfig(d):
        c = Config()
        for k, v in d.items():
            setattr(c, k, list(v) if isinstance(v, list) else v)
        return c

    def mkstream(blob, kind='bytes'):
        if kind == 'mv':
            blob = memoryview(blob)
        elif kind == 'ba':
            blob = bytearray(blob)
        return DataStream(blob, byte_order='big', is_signed=False)

    rng = random.Random(4242)

    # ---- 1. whole PEL decoding ------------------------------------------
    for name, blob in corpus:
        heavy = not ('_cut' in name or '_mut' in name or '_hmut' in name or name.startswith('rand'))
        cfgs = CONFIGS if heavy else [CONFIGS[0], CONFIGS[3]]
        for ci, cd in enumerate(cfgs):
            s = mkstream(blob)
            run('parsePEL/%s/c%d' % (name, CONFIGS.index(cd)),
                lambda: pt.parsePEL(s, mkconfig(cd), False), s)
        cfgs = [CONFIGS[0], CONFIGS[2], CONFIGS[3]] if heavy else [CONFIGS[2]]
        for cd in cfgs:
            s = mkstream(blob)
            run('parsePELSummary/%s/c%d' % (name, CONFIGS.index(cd)),
                lambda: pt.parsePELSummary(s, mkconfig(cd)), s)
        if heavy or name.endswith('0'):
            s = mkstream(blob)
            run('parsePEL-exit/%s' % name, lambda: pt.parsePEL(s, mkconfig({'every_pel': True}), True), s)
            s = mkstream(blob, 'mv')
            run('parsePEL-mv/%s' % name, lambda: pt.parsePEL(s, mkconfig({'every_pel': True}), False), s)
            s = mkstream(blob, 'ba')
            run('parsePELSummary-ba/%s' % name, lambda: pt.parsePELSummary(s, mkconfig({'every_pel': True})), s)

        # generatePH / generateUH directly
        s = mkstream(blob)
        out = OrderedDict()
        holder = []

        def gen():
            ok, ph = pt.generatePH(s, out)
            holder.append(ph)
            r = [ok, None if ph is None else state(ph), list(out.items())]
            ok2, uh = pt.generateUH(s, ph.creatorID if ph else 'O', out)
            holder.append(uh)
            r += [ok2, None if uh is None else state(uh), list(out.items())]
            if uh is not None:
                r += [bool(uh.isHidden()), repr(uh.isHidden()), repr(uh.isServiceable())]
            return r
        run('genPHUH/%s' % name, gen, s, objs=holder)
        s = mkstream(blob)
        run('parseHeader/%s' % name, lambda: pt.parseHeader(s), s)

    # ---- 2. section classes on raw payloads -----------------------------
    payloads = []
    for name, blob in corpus:
        if '_cut' in name or '_mut' in name or '_hmut' in name:
            continue
        pos = 0
        while pos + 8 <= len(blob):
            sid, slen, ver, sub, comp = struct.unpack('>HHBBH', blob[pos:pos + 8])
            if slen < 8:
                break
            payloads.append((sid, slen, ver, sub, comp, blob[pos + 8:pos + slen]))
            pos += slen
    seen = set()
    uniq = []
    for p in payloads:
        if p not in seen:
            seen.add(p)
            uniq.append(p)
    payloads = uniq
    for _ in range(60):
        payloads.append((rng.randrange(0x10000), rng.choice([8, 12, 28, 48, 84]), rng.randrange(3),
                         rng.randrange(6), rng.choice([0x2000, 0x4858, 0xe500, rng.randrange(0x10000)]),
                         bytes(rng.randrange(256) for _ in range(rng.choice([0, 1, 7, 8, 16, 40, 76, 90])))))

    # well-formed random payloads for each known section kind (+ trailing bytes)
    def asc(n):
        return bytes(rng.choice(b'ABCXYZ0123456789-_. ') for _ in range(n))
    for k in range(14):
        blobs = [
            sec_eh(mt=asc(8), sn=asc(rng.randrange(13)), fw=asc(rng.randrange(17)), subfw=asc(16),
                   symptom=asc(rng.choice([0, 1, 4, 20, 80])) + b'\0' * rng.randrange(4), t=ts(rng)),
            sec_mt(mt=asc(rng.randrange(9)), sn=asc(12)),
            sec_lp(part=rng.randrange(0x10000), name=asc(rng.choice([0, 4, 8, 12])),
                   lps=tuple(rng.randrange(0x10000) for _ in range(rng.randrange(6))), logid=rng.randrange(1 << 32)),
            sec_ph(creator=rng.choice([b'O', b'B', b'H', b'Q']), count=rng.randrange(256), obmc=rng.randrange(1 << 32),
                   cver=rng.randrange(1 << 64), plid=rng.randrange(1 << 32), eid=rng.randrange(1 << 32),
                   t1=ts(rng), t2=ts(rng)),
            sec_uh(subsys=rng.randrange(256), scope=rng.randrange(256), sev=rng.randrange(256), etype=rng.randrange(256),
                   action=rng.randrange(0x10000), states=rng.randrange(1 << 32)),
            sec_src(ascii_=b'BD' + asc(6), flags=rng.choice([0, 0x80, 0x10, 0x04]), wordcount=rng.randrange(2, 10),
                    words=[rng.randrange(1 << 32) for _ in range(8)]),
        ]
        for b in blobs:
            sid, slen, ver, sub, comp = struct.unpack('>HHBBH', b[:8])
            payloads.append((sid, slen, k % 3, k % 5, rng.choice([comp, 0x2000, 0x4142]),
                             b[8:] + bytes(rng.randrange(256) for _ in range(rng.choice([0, 0, 3])))))

    cfg_on, cfg_off = mkconfig({}), mkconfig({'allow_plugins': False})

    def section_cases(tag, sid, slen, ver, sub, comp, body, creators, kinds=('bytes',)):
        for kind in kinds:
            for cr in creators:
                def mk(cls, *extra):
                    s = mkstream(body, kind)
                    holder = []

                    def f():
                        o = cls(s, sid, slen, ver, sub, comp, *extra)
                        holder.append(o)
                        return o.toJSON()
                    run('%s/%s/%s/%s' % (cls.__name__, tag, kind, cr), f, s, objs=holder)

                def mkc(cls, *extra):
                    for cn, cfg in (('on', cfg_on), ('off', cfg_off)):
                        s = mkstream(body, kind)
                        holder = []

                        def f():
                            o = cls(s, sid, slen, ver, sub, comp, *extra)
                            holder.append(o)
                            return o.toJSON(cfg)
                        run('%s/%s/%s/%s/%s' % (cls.__name__, tag, kind, cr, cn), f, s, objs=holder)
                mk(PrivateHeader)
                mk(UserHeader, cr)
                mk(ExtendedUserHeader, cr)
                mk(FailingMTMS, cr)
                mk(ImpactedPartition, cr)
                mk(Default)
                mkc(UserData, cr)
                mkc(ExtUserData)
                for cn, cfg in (('on', cfg_on), ('off', cfg_off)):
                    s = mkstream(body, kind)
                    out = OrderedDict()
                    run('sectionFun/%s/%s/%s/%s' % (tag, kind, cr, cn),
                        lambda: [pt.sectionFun(s, out, sid, slen, ver, sub, comp, cr, cfg),
                                 list(out.items())], s)

    for i, (sid, slen, ver, sub, comp, body) in enumerate(payloads):
        section_cases('p%d' % i, sid, slen, ver, sub, comp, body,
                      ['O', 'H'] if i % 3 else ['O', 'H', 'B', 'Z'],
                      ('bytes', 'mv') if i % 5 == 0 else ('bytes',))
    # truncated payloads of the known section kinds
    for i, (sid, slen, ver, sub, comp, body) in enumerate(payloads[:14]):
        for cut in sorted(set(list(range(0, min(len(body), 50))) + [len(body) - 1, len(body) + 0])):
            if cut < 0:
                continue
            section_cases('t%d_%d' % (i, cut), sid, slen, ver, sub, comp, body[:cut], ['O'])

    # generate* wrappers directly
    for i, (sid, slen, ver, sub, comp, body) in enumerate(payloads[:40]):
        for fname, extra in (('generateSRC', ('O', cfg_on)), ('generateEH', ('O',)), ('generateMT', ('H',)),
                             ('generateED', (cfg_on,)), ('generateUD', ('O', cfg_off)), ('generateIP', ('H',)),
                             ('generateDefault', ())):
            s = mkstream(body)
            out = OrderedDict()

            def f():
                ok, obj = getattr(pt, fname)(s, out, sid, slen, ver, sub, comp, *extra)
                return [ok, type(obj).__name__, list(out.items())]
            run('%s/p%d' % (fname, i), f, s)

    # repeated toJSON on the same decoder object
    for lps in ((1, 2, 3), (), (9,)):
        body = sec_lp(lps=lps)[8:] * 3
        s = mkstream(body)
        holder = []

        def f():
            o = ImpactedPartition(s, 0x4C50, 0, 1, 0, 0x4c50, 'H')
            holder.append(o)
            return [o.toJSON(), o.toJSON(), o.toJSON()]
        run('ImpactedPartition-repeat/%r' % (lps,), f, s, objs=holder)
    body = (ts() * 2 + b'O' + bytes(23)) * 2
    s = mkstream(body)
    holder = []

    def f():
        o = PrivateHeader(s, 0x5048, 48, 1, 0, 0x2000)
        holder.append(o)
        return [o.toJSON(), o.toJSON()]
    run('PrivateHeader-repeat', f, s, objs=holder)

    # ---- 3. getTimestamp ------------------------------------------------
    for n in range(0, 20):
        for kind in ('bytes', 'mv', 'ba'):
            blob = bytes(rng.randrange(256) for _ in range(n))
            s = mkstream(blob, kind)
            run('getTimestamp/%d/%s' % (n, kind), lambda: [getTimestamp(s), getTimestamp(s)], s)
    s = mkstream(bytes(range(40)))
    s.index = 3
    run('getTimestamp/offset', lambda: [getTimestamp(s) for _ in range(6)], s)
    s = DataStream(memoryview(bytes(range(64))).cast('H'), byte_order='big', is_signed=False)
    run('getTimestamp/castH', lambda: [getTimestamp(s) for _ in range(5)], s)
    # (only buffer objects - bytes, bytearray, memoryview - are valid stream data)
    s = DataStream(memoryview(bytes(range(64)))[::2], byte_order='big', is_signed=False)
    run('getTimestamp/strided', lambda: [getTimestamp(s) for _ in range(5)], s)

    # ---- 4. DataStream op sequences -------------------------------------
    for k in range(300):
        size = rng.choice([0, 1, 2, 5, 8, 16, 33])
        blob = bytes(rng.randrange(256) for _ in range(size))
        kind = rng.choice(['bytes', 'mv', 'ba'])
        ctor = rng.choice([dict(byte_order='big', is_signed=False), dict(byte_order='little', is_signed=True),
                           dict(), dict(byte_order='big'), dict(is_signed=False), dict(byte_order='middle', is_signed=False)])
        data = memoryview(blob) if kind == 'mv' else bytearray(blob) if kind == 'ba' else blob
        s = DataStream(data, **ctor)
        for step in range(rng.randrange(1, 9)):
            op = rng.choice(['check_range', 'inc_index', 'get_mem', 'get_int', 'get_int', 'get_int2'])
            n = rng.choice([1, 1, 2, 2, 3, 4, 4, 8, 0, -1, 40, 1.5, None, True])
            if op == 'get_int2':
                kw = rng.choice([dict(byte_order='little'), dict(is_signed=True), dict(byte_order='big', is_signed=False),
                                 dict(byte_order=None, is_signed=None)])
                fn = (lambda n=n, kw=kw: s.get_int(n, **kw))
            elif op == 'get_mem':
                fn = (lambda n=n: bytes(s.get_mem(n)).hex())
            else:
                fn = (lambda op=op, n=n: getattr(s, op)(n))
            run('ds/%d/%d/%s/%r' % (k, step, op, n), fn, s)
    s = DataStream(b'abcdef', byte_order='big', is_signed=False)
    s.index = 10
    run('ds/past-end', lambda: s.get_mem(1), s)
    s = DataStream(b'abcdef', byte_order='big', is_signed=False)
    s.size = 100
    run('ds/size-lie', lambda: [bytes(s.get_mem(4)), bytes(s.get_mem(4)), s.get_int(4)], s)

    # ---- 5. buildOutput -------------------------------------------------
    names = ['User Data', 'Failing MTMS', 'Unknown', 'Primary SRC', 'User Data 1', '']
    for k in range(150):
        secs = []
        for _ in range(rng.randrange(0, 9)):
            d = OrderedDict()
            for __ in range(rng.choice([1, 1, 1, 1, 2, 0] if k % 10 == 0 else [1])):
                d[rng.choice(names)] = {'v': rng.randrange(100)}
            secs.append(d)
        out = OrderedDict()
        if k % 7 == 0:
            out['User Data 0'] = 'pre-existing'
            out['Private Header'] = 'ph'

        def f():
            r = pt.buildOutput(secs, out)
            return [r, list(out.items())]
        rec = run('buildOutput/%d' % k, f)
        rec['after'] = json.dumps(list(out.items()))

    # ---- 6. ParseUserData -----------------------------------------------
    datas = [b'', b'abc', b'{"a": 1}', b'\x00\x01\x02\x03' * 9, b'\xff\xfe'] + TEXTS + JSONS
    n = 0
    for rep in range(2):
        for creator, comp in (('O', 0x2000), ('O', 0x1000), ('O', 0xe500), ('M', 0x2c00), ('B', 0x0100),
                              ('H', 0x4858), ('T', 0x1000), ('T', 0x1001), ('T', 0x1002), ('T', 0x1003),
                              ('T', 0x1004), ('T', 0x1005), ('T', 0x1006), ('T', 0x1007), ('T', 0x1008),
                              ('Z', 0x0000), ('\xe9', 0xFFFF), ('', 0x2000), ('o', 0x2000)):
            for sub in (0, 1, 2, 3, 4, 5):
                for data in datas if creator in 'OT' else datas[:6]:
                    for cn, cfg in (('on', cfg_on), ('off', cfg_off)):
                        n += 1
                        p = ParseUserData(creator, comp, sub, 1 + (n % 3), data)
                        run('pud.parse/%d' % n, lambda: p.parse(cfg))
                        if n % 4 == 0:
                            p = ParseUserData(creator, comp, sub, 1, data)
                            run('pud.parseCustom/%d' % n, lambda: p.parseCustom())
                            p = ParseUserData(creator, comp, sub, 1, data)
                            run('pud.builtin/%d' % n, lambda: p.getBuiltinFormatJSON())
                            p = ParseUserData(creator, comp, sub, 1, memoryview(data))
                            run('pud.parse-mv/%d' % n, lambda: p.parse(cfg))
    # on-disk plugins whose import itself misbehaves
    import udparsers
    plugdir = os.path.join(tmpdir, 'plugins-%d' % os.getpid())
    for pname, body in (('k7770', 'raise RuntimeError("import blew up")\n'),
                        ('k7771', 'import surely_not_an_existing_module_xyz\n'),
                        ('k7772', 'def parseUDToJson(:\n'),
                        ('k7773', 'import json\ndef parseUDToJson(s, v, d):\n    return json.dumps({"len": len(d)})\n'),
                        ('k7774', 'x = 1\n')):
        os.makedirs(os.path.join(plugdir, pname))
        open(os.path.join(plugdir, pname, '__init__.py'), 'w').close()
        with open(os.path.join(plugdir, pname, pname + '.py'), 'w') as f:
            f.write(body)
    udparsers.__path__.append(plugdir)
    for rep in range(3):
        for comp in range(0x7770, 0x7776):
            for data in (b'', b'some data'):
                p = ParseUserData('K', comp, 2, 1, data)
                run('pud.disk-plugin/%d/%04x/%d' % (rep, comp, len(data)), lambda: p.parse(cfg_on))
                p = ParseUserData('K', comp, 2, 1, data)
                run('pud.disk-plugin-custom/%d/%04x/%d' % (rep, comp, len(data)), lambda: p.parseCustom())
        run('pud.cache-disk/%d' % rep, lambda: sorted((k, None if v is None else 'module')
                                                      for k, v in pud.userDataParsers.items() if '.k777' in k))
    udparsers.__path__.remove(plugdir)
    shutil.rmtree(plugdir, ignore_errors=True)

    run('pud.cache', lambda: sorted((k, None if v is None else 'module') for k, v in pud.userDataParsers.items()))
    run('pud.get_value', lambda: [pud.get_value(b'\x01\x02\x03\x04\x05', a, b) for a in range(6) for b in range(6)])
    run('pud.enum', lambda: [(m.name, m.value) for m in UserDataFormat])

    # UserData / ExtUserData with the fake plugins
    for comp in range(0x1000, 0x1009):
        for data in (b'', b'payload!', b'\xff' * 20):
            for cn, cfg in (('on', cfg_on), ('off', cfg_off)):
                s = mkstream(data + b'tail')
                holder = []

                def f():
                    o = UserData(s, 0x5544, 8 + len(data), 2, 6, comp, 'T')
                    holder.append(o)
                    return o.toJSON(cfg)
                run('UserData-fake/%04x/%d/%s' % (comp, len(data), cn), f, s, objs=holder)
                s = mkstream(b'T\0\0\0' + data + b'tail')
                holder = []

                def f():
                    o = ExtUserData(s, 0x4544, 12 + len(data), 2, 6, comp)
                    holder.append(o)
                    return o.toJSON(cfg)
                run('ExtUserData-fake/%04x/%d/%s' % (comp, len(data), cn), f, s, objs=holder)

    run('getSectionName', lambda: [pt.getSectionName(x) for x in (0x5048, 0x5548, 0x5053, 0x4544, 0, 0xFFFF, 0x15048)])
    run('module-api', lambda: sorted(n for n in dir(pt) if not n.startswith('_') and
                                     (n.startswith('generate') or n.startswith('parse') or
                                      n in ('sectionFun', 'buildOutput', 'getSectionName'))))

    with open(out_file, 'w') as f:
        json.dump(records, f)


# --------------------------------------------------------------------------
# driver
# --------------------------------------------------------------------------

def make_fake_registry(d):
    pkg = os.path.join(d, 'pel_registry')
    os.makedirs(pkg)
    with open(os.path.join(pkg, '__init__.py'), 'w') as f:
        f.write("import os\n"
                "def get_registry_path():\n"
                "    return os.path.join(os.path.dirname(__file__), 'message_registry.json')\n")
    reg = {"PELs": [
        {"Name": "x.y.z", "SRC": {"ReasonCode": "0x1002", "Words6To9": {
            "6": {"Description": "word six", "AdditionalDataPropSource": "W6"},
            "7": {"AdditionalDataPropSource": "W7"}}},
         "Documentation": {"Message": "Something %1 failed %2", "MessageArgSources": ["SRCWord6", "SRCWord9"]}},
        {"Name": "a.b.c", "SRC": {"ReasonCode": "0x1510", "Type": "11"},
         "Documentation": {"Message": "Power thing"}},
        {"Name": "no.rc", "SRC": {}, "Documentation": {"Message": "none"}},
    ]}
    with open(os.path.join(pkg, 'message_registry.json'), 'w') as f:
        json.dump(reg, f)
    with open(os.path.join(pkg, 'O_component_ids.json'), 'w') as f:
        json.dump({"2000": "bmc-logging", "E500": "hwdiags", "1000": "bmc-common"}, f)
    with open(os.path.join(pkg, 'B_component_ids.json'), 'w') as f:
        json.dump({"0100": "hb-trace", "0500": "hb-errl"}, f)
    with open(os.path.join(pkg, 'M_component_ids.json'), 'w') as f:
        json.dump({"2C00": "io-drawer"}, f)


def snapshot(d):
    res = []
    for base, dirs, files in os.walk(d):
        dirs.sort()
        for fn in sorted(files):
            p = os.path.join(base, fn)
            with open(p, 'rb') as f:
                res.append((os.path.relpath(p, d), hashlib.sha1(f.read()).hexdigest()))
    return res


def norm_err(text, subs):
    for a, b in subs:
        text = text.replace(a, b)
    # drop traceback frames (path / line number / source echo); keep messages
    lines = [ln for ln in text.splitlines() if not ln.startswith('  ')]
    return '\n'.join(lines)


def run_cli(root, args, optimize, extra_path, workdir, subs):
    env = dict(os.environ)
    env['PYTHONPATH'] = os.pathsep.join([os.path.join(root, 'modules')] + ([extra_path] if extra_path else []))
    env['PYTHONDONTWRITEBYTECODE'] = '1'
    env['PYTHONHASHSEED'] = '0'
    cmd = [PY] + (['-O'] if optimize else []) + [os.path.join(root, 'modules', 'pel', 'peltool', 'peltool.py')] + args
    p = subprocess.run(cmd, cwd=workdir, env=env, stdout=subprocess.PIPE, stderr=subprocess.PIPE, timeout=300)
    allsubs = subs + [(os.path.realpath(root), '<ROOT>'), (root, '<ROOT>')]
    return {'rc': p.returncode,
            'out': _sub(p.stdout.decode('utf-8', 'replace'), allsubs),
            'err': norm_err(p.stderr.decode('utf-8', 'replace'), allsubs)}


def _sub(text, subs):
    for a, b in subs:
        text = text.replace(a, b)
    return text


def cli_cases(root, corpus, scratch, fake_reg):
    """Returns list of (case name, record)."""
    recs = []
    files = {}
    src = os.path.join(scratch, 'src')
    if os.path.isdir(src):
        shutil.rmtree(src)
    os.makedirs(src)
    chosen = [(n, b) for n, b in corpus if not ('_mut' in n or '_hmut' in n or n.startswith('rand'))
              and ('_cut' not in n or n.endswith('0'))]
    extra = [(n, b) for n, b in corpus if ('_mut' in n and n.endswith(('3', '7'))) or n.startswith('randsec_1')]
    for i, (n, b) in enumerate(chosen + extra):
        fn = '%03d_%s.%s' % (i, n, 'pel' if i % 3 else 'bin')
        if n.startswith('uh_'):
            fn = '%03d_%s_50001%03X.pel' % (i, n, int(n.split('_')[1], 16) % 0x1000)
        files[n] = fn
        with open(os.path.join(src, fn), 'wb') as f:
            f.write(b)
    os.makedirs(os.path.join(src, 'subdir'))
    with open(os.path.join(src, 'subdir', 'nested.pel'), 'wb') as f:
        f.write(dict(corpus)['minimal'])
    excl = os.path.join(scratch, 'exclude.txt')
    with open(excl, 'w') as f:
        f.write('BD8D1002\nBD000003\n')
    subs = [(os.path.realpath(scratch), '<SCRATCH>'), (scratch, '<SCRATCH>')]

    def fresh(name):
        d = os.path.join(scratch, name)
        if os.path.isdir(d):
            shutil.rmtree(d)
        shutil.copytree(src, d)
        return d

    def case(name, args, optimize=False, reg=False, watch=()):
        r = run_cli(root, args, optimize, fake_reg if reg else None, scratch, subs)
        r['fs'] = [snapshot(w) for w in watch]
        recs.append((name, r))

    # single file decodes
    single = ['full_bmc', 'full_bmc_callouts', 'minimal', 'hostboot', 'phyp', 'io_drawer', 'hwdiags',
              'unknown_creator', 'nonascii_creator', 'dups', 'lp_variants', 'eh_variants', 'bad_ph_id',
              'bad_uh_id', 'count_too_big', 'count_zero', 'ud_len_short', 'ud_len_7', 'ed_len_11',
              'ud_len_long', 'empty', 'one_byte', 'text_0', 'text_6', 'text_9', 'json_7', 'json_10',
              'full_bmc_cut40', 'full_bmc_cut100', 'full_bmc_cut300', 'uh_00_0000', 'uh_40_4000', 'uh_51_a800']
    for n in single:
        if n not in files:
            continue
        p = os.path.join(src, files[n])
        case('f/%s' % n, ['-f', p])
        case('fP/%s' % n, ['-f', p, '-P'], optimize=True)
        if n in ('full_bmc', 'full_bmc_callouts', 'hwdiags', 'hostboot', 'bad_ph_id', 'uh_00_0000'):
            case('fx/%s' % n, ['-f', p, '-x'])
            case('freg/%s' % n, ['-f', p], reg=True)
            case('fE/%s' % n, ['-f', p, '-E'], optimize=True, reg=True)
    case('f/missing', ['-f', os.path.join(src, 'does-not-exist')])
    d = fresh('clean1')
    case('f-clean/ok', ['-f', os.path.join(d, files['full_bmc']), '-c'], watch=[d])
    case('f-clean/bad', ['-f', os.path.join(d, files['bad_uh_id']), '-c'], watch=[d])
    case('f-clean/hidden', ['-f', os.path.join(d, files['uh_40_4000']), '-c'], watch=[d])

    # directory operations
    dirops = [
        ['-l'], ['-l', '-E'], ['-l', '-r'], ['-l', '-e', '.pel'], ['-l', '-H', '-O'], ['-l', '-N'], ['-l', '-s', '-O'],
        ['-l', '-S', 'Informational', 'Recovered'], ['-l', '-O', '-S', 'Unrecoverable'], ['-l', '-t', '-O'],
        ['-l', '-x', '-e', '.bin'], ['-l', '-P', '-E'],
        ['-n'], ['-n', '-E'], ['-n', '-H', '-O'], ['-n', '-O', '-S', 'Predictive'], ['-n', '-e', '.bin'],
        ['-a'], ['-a', '-E'], ['-a', '-E', '-P'], ['-a', '-x', '-e', '.bin'], ['-a', '-r', '-H'],
        ['-a', '-S', 'Critical', 'Symptom', '-O'],
        ['--plid', '50000003'], ['--plid', '0x5000001', '-E'], ['--plid', '0x50000010', '-E', '-x'], ['--plid', '5'],
        ['--src', 'BD8D1002'], ['--src', 'BD00', '-E', '-r'], ['--src', 'B' * 33], ['--src', 'BD000001', '-x', '-E'],
        ['--src-exclude', excl], ['--src-exclude', excl, '-E'], ['--src-exclude', os.path.join(scratch, 'nope')],
        ['-i', '0x50001003'], ['-i', '50001010', '-x'], ['-i', '5000'], ['-i', 'FFFFFFFF'],
        ['--bmc-id', '1'], ['--bmc-id', '12'], ['--bmc-id', '99999'], ['--bmc-id', '13', '-x'],
        [],
    ]
    for i, a in enumerate(dirops):
        case('dir/%d/%s' % (i, ' '.join(x if len(x) < 20 else '~' for x in a)), ['-p', src] + a,
             optimize=(i % 4 == 1), reg=(i % 5 == 2))
    case('nopath', ['-l'])
    case('badpath', ['-p', os.path.join(scratch, 'nonexistent'), '-l'])

    # json output / clean / delete
    d = fresh('j1')
    o = os.path.join(scratch, 'j1out')
    shutil.rmtree(o, ignore_errors=True)
    os.makedirs(o)
    case('json/outdir', ['-p', d, '-j', '-o', o], watch=[d, o])
    d = fresh('j2')
    case('json/inplace-E', ['-p', d, '-j', '-E', '-e', '.pel'], watch=[d], optimize=True)
    d = fresh('j3')
    o = os.path.join(scratch, 'j3out')
    shutil.rmtree(o, ignore_errors=True)
    os.makedirs(o)
    case('json/clean', ['-p', d, '-j', '-c', '-E', '-P', '-o', o], watch=[d, o])
    case('json/bad-outdir', ['-p', d, '-j', '-o', os.path.join(scratch, 'missing-out')], watch=[d])
    d = fresh('del1')
    case('delete/id', ['-p', d, '-d', '50001003'], watch=[d])
    case('delete/id-missing', ['-p', d, '-d', '0x5EADBEEF'], watch=[d])
    case('delete/id-badlen', ['-p', d, '-d', '123'], watch=[d])
    case('delete/all', ['-p', d, '-D'], watch=[d])
    return recs


def worker_records(root, corpus_file, scratch, optimize, fake_reg, tag):
    out_file = os.path.join(scratch, 'worker-%s.json' % tag)
    env = dict(os.environ)
    env['PYTHONPATH'] = os.pathsep.join([os.path.join(root, 'modules')] + ([fake_reg] if fake_reg else []))
    env['PYTHONDONTWRITEBYTECODE'] = '1'
    env['PYTHONHASHSEED'] = '0'
    cmd = [PY] + (['-O'] if optimize else []) + [os.path.abspath(__file__), '--worker', root, corpus_file, out_file, scratch]
    p = subprocess.run(cmd, cwd=scratch, env=env, stdout=subprocess.PIPE, stderr=subprocess.PIPE)
    if p.returncode != 0:
        print('worker failed for %s (%s):\n%s' % (root, tag, p.stderr.decode()[-3000:]))
        return None
    with open(out_file) as f:
        return json.load(f)


def main():
    if len(sys.argv) >= 2 and sys.argv[1] == '--worker':
        worker(*sys.argv[2:6])
        return 0
    if len(sys.argv) != 3:
        print(__doc__)
        return 2
    roots = [os.path.abspath(sys.argv[1]), os.path.abspath(sys.argv[2])]
    corpus = build_corpus()
    top = tempfile.mkdtemp(prefix='diffcheck-', dir=os.path.dirname(os.path.abspath(__file__)))
    try:
        corpus_file = os.path.join(top, 'corpus.json')
        with open(corpus_file, 'w') as f:
            json.dump([(n, b.hex()) for n, b in corpus], f)
        fake_reg = os.path.join(top, 'fakereg')
        os.makedirs(fake_reg)
        make_fake_registry(fake_reg)

        results = []
        for root in roots:
            # identical scratch path for both trees so that paths in output match
            scratch = os.path.join(top, 'scratch')
            if os.path.isdir(scratch):
                shutil.rmtree(scratch)
            os.makedirs(scratch)
            allrecs = []
            for optimize, reg, tag in ((False, None, 'plain'), (True, None, 'opt'),
                                       (False, fake_reg, 'reg'), (True, fake_reg, 'opt-reg')):
                recs = worker_records(root, corpus_file, scratch, optimize, reg, tag)
                if recs is None:
                    return 1
                allrecs.extend(('worker-%s/%s' % (tag, r['case']), r) for r in recs)
            allrecs.extend(('cli/' + n, r) for n, r in cli_cases(root, corpus, scratch, fake_reg))
            results.append(allrecs)

        a, b = results
        ndiff = 0
        if len(a) != len(b):
            print('different number of records: %d vs %d' % (len(a), len(b)))
            ndiff += 1
        for (na, ra), (nb, rb) in zip(a, b):
            if na != nb or ra != rb:
                ndiff += 1
                if ndiff <= 15:
                    print('DIFFERENCE in case %s / %s' % (na, nb))
                    for k in sorted(set(ra) | set(rb)):
                        if ra.get(k) != rb.get(k):
                            print('   %s:\n      pristine: %.600r\n      patched:  %.600r' % (k, ra.get(k), rb.get(k)))
        if ndiff:
            print('DIFFERENT (%d of %d cases differ)' % (ndiff, len(a)))
            return 1
        print('IDENTICAL (%d cases)' % len(a))
        return 0
    finally:
        shutil.rmtree(top, ignore_errors=True)


if __name__ == '__main__':
    sys.exit(main())
