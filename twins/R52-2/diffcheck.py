#!/usr/bin/env python3
"""
Differential check for refactorings of modules/pel/peltool/{src,registry,comp_id}.py

usage: /venv/bin/python diffcheck.py <pristine_root> <patched_root>

Builds binary PELs, callout / SRC blobs, a fake pel_registry package (message
registry + component id files) and fake SRC / callout parser plugins, then runs
an in-process driver (as a subprocess, once per root and environment) plus the
peltool CLI for both trees and compares everything that is observable:
decoded JSON/text, raised exception types and messages, stdout, stderr, exit
status, module level cache state and the files created / removed.

Prints "IDENTICAL (<n> cases)" and exits 0 if nothing differs, exits 1
otherwise.
"""
import json
import os
import random
import shutil
import struct
import subprocess
import sys
import tempfile

PY = sys.executable
HERE = os.path.dirname(os.path.abspath(__file__))

# --------------------------------------------------------------------------
# binary builders
# --------------------------------------------------------------------------


def pad(b: bytes, n: int) -> bytes:
    return (b + b"\0" * n)[:n]


def sec_hdr(sid, length, ver=1, sub=0, comp=0x1000):
    return struct.pack(">HHBBH", sid, length & 0xFFFF, ver, sub, comp)


TS = bytes.fromhex("2024010112304500")


def ph(creator=b"O", nsec=3, comp=0x1000, logid=1, plid=0x50000001,
       eid=0x50000001):
    body = TS + TS + creator + b"\0\0" + bytes([nsec]) + \
        struct.pack(">I", logid) + struct.pack(">Q", 0x0102030405060708) + \
        struct.pack(">II", plid, eid)
    return sec_hdr(0x5048, 48, comp=comp) + body


def uh(sev=0x40, action=0xA000, subsys=0x8D, comp=0x2000):
    body = bytes([subsys, 0x03, sev, 0x00]) + b"\0\0\0\0" + bytes([0, 0]) + \
        struct.pack(">H", action) + struct.pack(">I", 0x00000102)
    return sec_hdr(0x5548, 24, comp=comp) + body


def fru(flags, pn=b"PN12345", ccin=b"CCIN", sn=b"SN0123456789", size=None,
        typ=0x4944):
    body = b""
    if flags & 0x0A:
        body += pad(pn, 8)
    if flags & 0x04:
        body += pad(ccin, 4)
    if flags & 0x01:
        body += pad(sn, 12)
    if size is None:
        size = 4 + len(body)
    return struct.pack(">HBB", typ, size & 0xFF, flags) + body


def pce(mt=b"9105-22A", sn=b"SER123456789", name=b"pcename\0", size=None,
        flags=0):
    if size is None:
        size = 4 + 8 + 12 + len(name)
    return struct.pack(">HBB", 0x5045, size & 0xFF, flags) + pad(mt, 8) + \
        pad(sn, 12) + name


def mru(ids, size=None, flags=None):
    if flags is None:
        flags = len(ids) & 0xF
    body = b"\0\0\0\0" + b"".join(struct.pack(">II", p, i) for p, i in ids)
    if size is None:
        size = 4 + len(body)
    return struct.pack(">HBB", 0x4D52, size & 0xFF, flags) + body


def callout(subs, priority=0x48, loc=b"U78DA.ND0.1234567-P0\0\0\0\0", size=None,
            flags=0x3E, locsize=None):
    blob = b"".join(subs)
    if locsize is None:
        locsize = len(loc)
    if size is None:
        size = 4 + len(loc) + len(blob)
    return bytes([size & 0xFF, flags, priority, locsize & 0xFF]) + loc + blob


def callout_section(callouts, wordlen=None):
    blob = b"".join(callouts)
    if wordlen is None:
        wordlen = (4 + len(blob) + 3) // 4
    return b"\xC0\x00" + struct.pack(">H", wordlen & 0xFFFF) + blob


def src_body(ascii=b"BD8D1000", words=None, flags=0, wordcount=9, version=2,
             callouts=b""):
    if words is None:
        words = [0x020000F0, 0x2E2D0010, 0x11223344, 0x23000000,
                 0xAABBCCDD, 0x00000006, 0x00000007, 0x00000008]
    body = bytes([version, flags, 0, wordcount]) + struct.pack(">HH", 0, 72)
    body += b"".join(struct.pack(">I", w & 0xFFFFFFFF) for w in words)
    body += (ascii + b" " * 32)[:32]
    return body + callouts


def section(sid, body, length=None, ver=1, sub=0, comp=0x1000):
    if length is None:
        length = 8 + len(body)
    return sec_hdr(sid, length, ver, sub, comp) + body


def pel(creator=b"O", sections=(), sev=0x40, action=0xA000, nsec=None,
        comp=0x1000, eid=0x50000001, logid=1, plid=0x50000001):
    if nsec is None:
        nsec = 2 + len(sections)
    return ph(creator, nsec, comp, logid, plid, eid) + uh(sev, action) + \
        b"".join(sections)


# --------------------------------------------------------------------------
# case generation
# --------------------------------------------------------------------------
CREATORS = [b"O", b"O", b"O", b"B", b"H", b"Z", b"Z", b"Z", b"Z", b"Z", b"Z",
            b"T", b"Q", b".", b"o", b"z", b"M", b"Z", b"O", b"\xff"]
REFCODES = [b"BD8D1000", b"BD8D1001", b"11001001", b"BC8A1002", b"BD8D2000",
            b"BD8D2001", b"BD8D2002", b"BD8D2003", b"BD8D2004", b"BD8D2005",
            b"BD8D2006", b"BD8D2007", b"BD8D2008", b"BD8D2009", b"BD8D200A",
            b"BD8D200B", b"BD8D200C", b"BD8D3001", b"BD8D2FFF", b"BDE51000",
            b"B7001111", b"BC8A1000", b"BC8A0501", b"11002222", b"BD", b"",
            b"BD8D10", b"\xc3\xa9D8D1000", b"BD8D\xff000", b"BDE50010",
            b"B181E500", b"  BD8D1000"]
GOOD_REFCODES = [b"BD8D1000", b"BD8D1001", b"11001001", b"BC8A1002",
                 b"BD8D2003", b"BD8D2004", b"BD8D2009", b"BD8D200A",
                 b"BD8D3001", b"BD8D2FFF", b"BDE51000", b"B7001111",
                 b"BC8A1000", b"11002222", b"BDE50010", b"BD8D9999"]
PRIORITIES = [0x48, 0x4D, 0x41, 0x42, 0x43, 0x4C, 0x00, 0x99]
PROCS = [b"PROC0001", b"PROC0002", b"PROC0003", b"PROC0004", b"PROC0005",
         b"BMC0001\0", b"BMC0008\0", b"BMC9999\0", b"ABC", b"\xffROC0001"]


def rand_text(rng, n, bad=False):
    alphabet = b"ABCDEFGHIJKLMNOPQRSTUVWXYZ0123456789-. "
    s = bytes(rng.choice(alphabet) for _ in range(rng.randint(0, n)))
    if bad and rng.random() < 0.5:
        s = s[:1] + b"\xfe" + s[2:]
    return pad(s, n)


def rand_sub(rng, kind=None):
    if kind is None:
        kind = rng.random()
    weird = rng.random() < 0.04
    if kind < 0.5:
        flags = rng.choice([0x18, 0x1C, 0x1D, 0x19, 0x42, 0x43, 0x47, 0x10,
                            0x2A, 0x9F, 0xC8, 0x00, 0x01, 0x04, 0xFF,
                            rng.randrange(256)])
        pn = rng.choice(PROCS) if flags & 0x02 else rand_text(rng, 8, weird)
        size = rng.choice([0, 3, 4, 200]) if weird else None
        return fru(flags, pn, rand_text(rng, 4, weird),
                   rand_text(rng, 12, weird), size)
    if kind < 0.75:
        name = rng.choice([b"name\0\0\0\0", b"pce-name-0123456", b"\0\0\0\0",
                           b"x", rand_text(rng, 8, weird)])
        if weird and rng.random() < 0.3:
            name = b""
        size = rng.choice([0, 4, 23, 24, 25, 60, 255]) if weird else None
        mt = rng.choice([b"9105-22A", b"", b"\0\0\0\0\0\0\0\0",
                         rand_text(rng, 8, weird)])
        return pce(mt, rand_text(rng, 12, weird), name, size)
    n = rng.randint(0, 5)
    ids = [(rng.choice(PRIORITIES), rng.randrange(1 << 32)) for _ in range(n)]
    size = rng.choice([0, 4, 8, 255]) if weird else None
    flags = rng.randrange(256) if weird else None
    return mru(ids, size, flags)


def rand_callout(rng):
    if rng.random() < 0.1:
        subs = [rand_sub(rng)
                for _ in range(rng.choice([0, 1, 1, 1, 2, 2, 3, 4]))]
    else:
        # at most one of each kind, in the usual order
        subs = [rand_sub(rng, k) for k in (0.1, 0.6, 0.9)
                if rng.random() < 0.55]
    loc = rng.choice([b"", b"U78DA.ND0.1234567-P0\0\0\0\0", b"Ufcs-P0\0",
                      b"\0\0\0\0", rand_text(rng, 16, rng.random() < 0.1)])
    weird = rng.random() < 0.04
    size = rng.choice([0, 3, 4, 5, 255, 4 + len(loc)]) if weird else None
    locsize = rng.choice([0, 1, len(loc) + 2, 255]) \
        if rng.random() < 0.02 else None
    if rng.random() < 0.03:
        subs.append(struct.pack(">HBB", rng.randrange(65536), 4, 0))
    return callout(subs, rng.choice(PRIORITIES), loc, size,
                   rng.randrange(256), locsize)


def rand_src_body(rng):
    words = [rng.randrange(1 << 32) for _ in range(8)]
    if rng.random() < 0.6:
        words[0] = (words[0] & 0xFFFFFF00) | rng.choice(
            [0x00, 0x01, 0x02, 0x03, 0x04, 0x05, 0xF0])
    flags = rng.choice([0x00, 0x01, 0x01, 0x01, 0x01, 0x81, 0x11, 0x05, 0xFF,
                        rng.randrange(256)])
    wc = rng.choice([9] * 14 + [6, 2, 1, 0, 8, 10, 12, 255,
                                rng.randrange(256)])
    cs = b""
    if flags & 1 or rng.random() < 0.1:
        callouts = [rand_callout(rng)
                    for _ in range(rng.choice([0, 1, 1, 2, 3, 5]))]
        wl = rng.choice([0, 1, 2, 500, 0xFFFF]) \
            if rng.random() < 0.04 else None
        cs = callout_section(callouts, wl)
        if rng.random() < 0.03:
            cs = cs[:rng.randrange(len(cs) + 1)]
    ref = rng.choice(REFCODES) if rng.random() < 0.2 \
        else rng.choice(GOOD_REFCODES)
    return src_body(ref, words, flags, wc, rng.choice([1, 2, 2, 0xFF]), cs)


def rand_pel(rng):
    creator = rng.choice(CREATORS)
    secs = [section(0x5053, rand_src_body(rng), comp=rng.choice(
        [0x1000, 0x2000, 0xE500, 0x4142, 0xBEEF]))]
    r = rng.random()
    if r < 0.3:
        for _ in range(rng.choice([1, 2, 3])):
            secs.append(section(0x5353, rand_src_body(rng)))
    if rng.random() < 0.3:
        secs.append(section(0x5858, bytes(rng.randrange(256)
                                          for _ in range(rng.randint(1, 40)))))
    sev = rng.choice([0x00, 0x10, 0x20, 0x40, 0x51, 0x71])
    action = rng.choice([0xA000, 0x2000, 0x4000, 0x8000, 0x0000, 0xE000])
    nsec = None
    if rng.random() < 0.05:
        nsec = rng.choice([0, 1, 2, 3, 9, 255])
    return pel(creator, secs, sev, action, nsec,
               comp=rng.choice([0x1000, 0x4142, 0x0041, 0xFFFF]),
               eid=0x50000000 + rng.randrange(1 << 16),
               logid=rng.randrange(1 << 16))


def short_pce_sections():
    """
    PCE identity whose size field is too small; laid out so that the
    callout and the subsection still end where their size fields say.
    """
    out = []
    for f in (10, 0, 23, 4):
        for first in ([], [fru(0x1D)]):
            loc = b"L" * ((2 - f - 4 * len(first)) % 4)
            subs = first + [pce(size=f, name=b"")]
            size = 4 + len(loc) + f + sum(len(x) for x in first)
            out.append(callout_section(
                [callout(subs, loc=loc, size=size)], wordlen=(4 + size) // 4))
    return out


def fixed_pels():
    out = []
    c_full = callout_section([
        callout([fru(0x1D), pce(), mru([(0x48, 0x00010203), (0x4C, 0xFFFFFFFF)])]),
        callout([fru(0x42, b"PROC0001")], priority=0x4D, loc=b""),
        callout([fru(0x42, b"BMC0001\0")], priority=0x4C),
        callout([mru([])]),
        callout([pce(mt=b"", name=b"only-a-name\0")]),
        callout([pce(name=b"\0\0")]),
        callout([]),
    ])
    for bad in ([pce(name=b"", size=24)], [pce(size=10)], [pce(size=0)],
                [mru([(1, 2)], size=0)], [fru(0x1D, size=0)],
                [fru(0x18, pn=b"\xff\xfe")], [pce(), pce(size=3)],
                [fru(0x9F), fru(0x10), mru([(1, 1)]), mru([(2, 0xABCDEF)])]):
        for creator in (b"O", b"Z"):
            out.append(pel(creator, [section(0x5053, src_body(
                flags=0x01, callouts=callout_section(
                    [callout([fru(0x1D)]), callout(bad)])))]))
            out.append(pel(creator, [section(0x5053, src_body(
                flags=0x01, callouts=callout_section(
                    [callout([fru(0x1D)]), callout(bad)]) + b"\0" * 64))]))
    for creator in (b"O", b"Z"):
        for sec in short_pce_sections():
            out.append(pel(creator, [section(0x5053, src_body(
                flags=0x01, callouts=sec))]))
    for creator in (b"O", b"Z", b"B", b"H", b"T", b"Q", b"."):
        for ref in GOOD_REFCODES + REFCODES[4:12]:
            out.append(pel(creator, [section(0x5053, src_body(
                ref, flags=0x01, callouts=c_full))]))
        out.append(pel(creator, [
            section(0x5053, src_body(b"BD8D1000")),
            section(0x5353, src_body(b"BD8D1001", flags=0x01,
                                     callouts=c_full)),
            section(0x5353, src_body(b"11001001")),
            section(0x5858, b"abcdefgh")]))
    for wc in range(0, 14):
        out.append(pel(b"Z", [section(0x5053, src_body(wordcount=wc))]))
    for low in range(0, 8):
        out.append(pel(b"Z", [section(0x5053, src_body(
            words=[0x02000000 + low] + [low + i for i in range(7)]))]))
    for proc in PROCS:
        for creator in (b"Z", b"O", b"T", b"Q", b"B"):
            out.append(pel(creator, [section(0x5053, src_body(
                flags=0x01, callouts=callout_section(
                    [callout([fru(0x42, proc)]),
                     callout([fru(0x4A, proc)])])))]))
    return out


def make_cases(seed=52):
    rng = random.Random(seed)
    pels = fixed_pels()
    base = len(pels)
    pels += [rand_pel(rng) for _ in range(1300)]
    # truncations
    for p in pels[0:base:40] + pels[base:base + 10]:
        step = 1 if len(p) < 260 else 3
        for n in range(40, len(p), step):
            pels.append(p[:n])
    # corruptions
    src_pool = pels[:base + 1300]
    for _ in range(500):
        p = bytearray(rng.choice(src_pool))
        for _ in range(rng.choice([1, 1, 2, 3, 6])):
            i = rng.randrange(72, len(p)) if len(p) > 72 \
                else rng.randrange(len(p))
            p[i] = rng.choice([0, 1, 0xFF, 0x80, p[i] ^ (1 << rng.randrange(8)),
                               rng.randrange(256)])
        pels.append(bytes(p))
    # random tails behind valid headers
    for _ in range(200):
        tail = bytes(rng.randrange(256) for _ in range(rng.randint(0, 200)))
        sid = rng.choice([0x5053, 0x5353])
        pels.append(pel(rng.choice(CREATORS), [
            sec_hdr(sid, 8 + len(tail)) + tail]))
    for _ in range(40):
        pels.append(bytes(rng.randrange(256)
                          for _ in range(rng.randint(0, 150))))

    # blobs for the identity / callout classes
    blobs = []
    for _ in range(500):
        blobs.append(rand_sub(rng))
        blobs.append(rand_callout(rng))
    for _ in range(150):
        b = bytearray(rng.choice(blobs))
        if b:
            b[rng.randrange(len(b))] = rng.randrange(256)
        blobs.append(bytes(b[:rng.randrange(len(b) + 1)]))
    for _ in range(100):
        blobs.append(bytes(rng.randrange(256)
                           for _ in range(rng.randint(0, 48))))
    csecs = []
    for _ in range(260):
        wl = rng.choice([0, 1, 2, 500, 0xFFFF]) \
            if rng.random() < 0.05 else None
        csecs.append(callout_section(
            [rand_callout(rng) for _ in range(rng.randint(0, 5))], wl))
    for _ in range(40):
        c = bytearray(rng.choice(csecs))
        c[rng.randrange(len(c))] = rng.randrange(256)
        csecs.append(bytes(c[:rng.randrange(len(c) // 2, len(c) + 1)]))
    csecs += blobs[0:120] + short_pce_sections()
    srcs = [rand_src_body(rng) for _ in range(150)]
    srcs += [s[:rng.randrange(len(s) + 1)] for s in srcs[:40]]
    return pels, blobs, srcs, csecs


# --------------------------------------------------------------------------
# fake environment (registry, component ids, plugins)
# --------------------------------------------------------------------------
REGISTRY = {"PELs": [
    {"Name": "a", "SRC": {"ReasonCode": "0x1000", "Words6To9": {
        "6": {"Description": "desc six", "AdditionalDataPropSource": "W6"},
        "7": {"AdditionalDataPropSource": "W7"},
        "9": {"Description": "desc nine",
              "AdditionalDataPropSource": "W9"}}},
     "Documentation": {"Message": "Msg %1 and %2 {{x}}",
                       "MessageArgSources": ["SRCWord6", "SRCWord9"]}},
    {"SRC": {"ReasonCode": "0x1001", "Type": "11"},
     "Documentation": {"Message": "power msg"}},
    {"SRC": {"ReasonCode": "0x1002", "Type": "BC", "Words6To9": {}},
     "Documentation": {"Message": "hb msg", "MessageArgSources": []}},
    {"SRC": {"Type": "BD"},
     "Documentation": {"Message": "never"}},
    {"SRC": {"ReasonCode": "0x2000"},
     "Documentation": {"Message": "braces {oops} %1",
                       "MessageArgSources": ["SRCWord3"]}},
    {"SRC": {"ReasonCode": "0x2001"},
     "Documentation": {"Message": "%1 %2 %3",
                       "MessageArgSources": ["SRCWord4"]}},
    {"SRC": {"ReasonCode": "0x2002"},
     "Documentation": {"Message": "x %1",
                       "MessageArgSources": ["SRCWordX"]}},
    {"SRC": {"ReasonCode": "0x2003"},
     "Documentation": {"Message": "w1 %1 w0 %2 %0 %10",
                       "MessageArgSources": ["SRCWord1", "SRCWord0"]}},
    {"SRC": {"ReasonCode": "0x2004"},
     "Documentation": {"Message": ""}},
    {"SRC": {"ReasonCode": "0x2005"},
     "Documentation": {}},
    {"SRC": {"ReasonCode": "0x2006", "Words6To9": {
        "6": {"Description": "d", "AdditionalDataPropSource": "A"},
        "12": {"Description": "oob", "AdditionalDataPropSource": "X"}}},
     "Documentation": {"Message": "m2006"}},
    {"SRC": {"ReasonCode": "0x2007", "Words6To9": {
        "8": {"Description": "d"}}},
     "Documentation": {"Message": "m2007"}},
    {"SRC": {"ReasonCode": "0x2008", "Words6To9": {
        "x": {"Description": "d", "AdditionalDataPropSource": "A"}}},
     "Documentation": {"Message": "m2008"}},
    {"SRC": {"ReasonCode": "0x2009", "Words6To9": {
        "8": {"Description": "later", "AdditionalDataPropSource": "Z"},
        "6": {"Description": "override",
              "AdditionalDataPropSource": "Message"},
        "2": {"Description": "two", "AdditionalDataPropSource": "Z"}}},
     "Documentation": {"Message": "orig"}},
    {"SRC": {"ReasonCode": "0x200A"},
     "Documentation": {"Message": 5}},
    {"SRC": {"ReasonCode": "0x200B"},
     "Documentation": {"Message": 5, "MessageArgSources": ["SRCWord6"]}},
    {"SRC": {"ReasonCode": "0x200C"},
     "Documentation": {"Message": 7, "MessageArgSources": ["SRCWordQ"]}},
    {"SRC": {"ReasonCode": ["0x3000", "0x3001"]},
     "Documentation": {"Message": "list code %1",
                       "MessageArgSources": ["SRCWord2"]}},
    {"SRC": {"ReasonCode": "zz0x2FFFzz", "Words6To9": None},
     "Documentation": {"Message": "substring", "MessageArgSources": None}},
    {"SRC": {"ReasonCode": "0x1000", "Type": "BC"},
     "Documentation": {"Message": "hb 1000 %1",
                       "MessageArgSources": ["SRCWord8"]}},
    {"SRC": {"ReasonCode": "0x1000"},
     "Documentation": {"Message": "shadowed duplicate"}},
    {"SRC": {"ReasonCode": "0x0010", "Type": "BD"},
     "Documentation": {"Message": "e5 %1 %1",
                       "MessageArgSources": ["SRCWord5", "SRCWord7"]}},
]}

COMP_IDS = {
    "O_component_ids.json": {"1000": "bmc-state-manager", "2000": "bmc-log",
                             "E500": "hw-diags", "beef": "lowercase-key",
                             "BEEF": "uppercase-key"},
    "B_component_ids.json": {"1000": "hb-comp", "0041": "hb-0041"},
    "Z_component_ids.json.bak": {"1000": "z-comp", "FFFF": 12},
    "Q_component_ids.json_component_ids.json": {"1000": "q-comp"},
    "_component_ids.json": {"1000": "empty-creator"},
    "M_component_ids.json": ["1000", "4142"],
    "notes.txt": "ignored",
}

REG_INIT = '''import os
def get_registry_path():
    return os.path.join(os.path.dirname(__file__), "message_registry.json")
'''

PKG_INIT = "__path__ = __import__('pkgutil').extend_path(__path__, __name__)\n"

ZSRC = '''import json
calls = [0]
def parseSRCToJson(refcode, w2, w3, w4, w5, w6, w7, w8, w9):
    calls[0] += 1
    low = w2[-2:]
    if low == "01":
        return "null"
    if low == "02":
        return ""
    if low == "03":
        return "not json"
    if low == "04":
        raise ValueError("boom " + refcode)
    if low == "05":
        return json.dumps([w2, w3, w4, w5, w6, w7, w8, w9])
    return json.dumps({"ref": refcode.strip(), "n": calls[0],
                       "words": " ".join([w2, w3, w4, w5, w6, w7, w8, w9])})
'''

ZCALLOUTS = '''import json
calls = [0]
def getMaintProcDesc(name):
    calls[0] += 1
    if name == "PROC0001":
        return json.dumps(["line one ", "line two"])
    if name == "PROC0002":
        return ""
    if name == "PROC0003":
        return "not json"
    if name == "PROC0004":
        raise KeyError(name)
    if name == "PROC0005":
        return json.dumps({"n": calls[0]})
    return json.dumps(name)
'''


def write(path, text):
    os.makedirs(os.path.dirname(path), exist_ok=True)
    with open(path, "w") as f:
        f.write(text)


def build_fakes(work):
    plug = os.path.join(work, "plugins")
    for pkg in ("srcparsers", "calloutparsers"):
        write(os.path.join(plug, pkg, "__init__.py"), PKG_INIT)
    sp = os.path.join(plug, "srcparsers")
    cp = os.path.join(plug, "calloutparsers")
    write(os.path.join(sp, "zsrc", "zsrc.py"), ZSRC)
    write(os.path.join(sp, "tsrc", "tsrc.py"), "raise SystemExit(7)\n")
    write(os.path.join(sp, "qsrc", "qsrc.py"), "x = 1\n")
    write(os.path.join(sp, "bsrc", "bsrc.py"),
          "raise RuntimeError('bad src plugin')\n")
    write(os.path.join(cp, "zcallouts", "zcallouts.py"), ZCALLOUTS)
    write(os.path.join(cp, "tcallouts", "tcallouts.py"),
          "raise SystemExit(7)\n")
    write(os.path.join(cp, "qcallouts", "qcallouts.py"), "x = 1\n")
    write(os.path.join(cp, "bcallouts", "bcallouts.py"),
          "raise RuntimeError('bad callout plugin')\n")

    reg = os.path.join(work, "reg", "pel_registry")
    write(os.path.join(reg, "__init__.py"), REG_INIT)
    write(os.path.join(reg, "message_registry.json"), json.dumps(REGISTRY))
    for name, content in COMP_IDS.items():
        write(os.path.join(reg, name), json.dumps(content))

    # component id file that can't be parsed, registry path empty
    bad = os.path.join(work, "reg_bad", "pel_registry")
    write(os.path.join(bad, "__init__.py"),
          "def get_registry_path():\n    return ''\n")
    write(os.path.join(bad, "O_component_ids.json"), "{ not json")

    # registry file missing: importing pel.peltool.src fails
    missing = os.path.join(work, "reg_missing", "pel_registry")
    write(os.path.join(missing, "__init__.py"), REG_INIT)

    # registry without a PELs key
    nokey = os.path.join(work, "reg_nokey", "pel_registry")
    write(os.path.join(nokey, "__init__.py"), REG_INIT)
    write(os.path.join(nokey, "message_registry.json"), '{"Other": []}')

    # BMC style directory used through comp_id.pelConfigRootPath
    bmc = os.path.join(work, "bmc_pels")
    write(os.path.join(bmc, "O_component_ids.json"),
          json.dumps({"1000": "from-bmc-dir"}))
    write(os.path.join(bmc, "H_component_ids.json"),
          json.dumps({"4142": "unused-for-phyp"}))
    write(os.path.join(bmc, "N_component_ids.json"), "null")
    return plug


# --------------------------------------------------------------------------
# the in-process driver (runs inside the tree under test)
# --------------------------------------------------------------------------
DRIVER = r'''
import contextlib, io, json, os, sys
work = sys.argv[1]
with open(os.path.join(work, "cases.json")) as f:
    CASES = json.load(f)
PELS = [bytes.fromhex(x) for x in CASES["pels"]]
BLOBS = [bytes.fromhex(x) for x in CASES["blobs"]]
SRCS = [bytes.fromhex(x) for x in CASES["srcs"]]
CSECS = [bytes.fromhex(x) for x in CASES["csecs"]]
MISSING = "<missing>"
nrec = 0


def emit(rec):
    global nrec
    nrec += 1
    sys.__stdout__.write(json.dumps(rec, default=repr) + "\n")


def guarded(kind, ident, fn):
    so, se = io.StringIO(), io.StringIO()
    rec = {"k": kind, "id": ident}
    with contextlib.redirect_stdout(so), contextlib.redirect_stderr(se):
        try:
            rec["out"] = fn()
        except BaseException as e:
            rec["exc"] = "%s: %s" % (type(e).__name__, e)
    rec["so"] = so.getvalue()
    rec["se"] = se.getvalue()
    emit(rec)
    return rec


try:
    from pel.datastream import DataStream
    from pel.peltool import comp_id, registry as registry_mod
    state0 = [sorted(comp_id.componentIDs), comp_id.attemptedToParseCompIDs]
    se = io.StringIO()
    with contextlib.redirect_stderr(se):
        from pel.peltool import src as S
        from pel.peltool import peltool as PT
        from pel.peltool.config import Config
    emit({"k": "import", "ok": True, "se": se.getvalue(), "state0": state0,
          "debug": __debug__, "npels": len(S.registry.pels)})
except BaseException as e:
    emit({"k": "import", "exc": "%s: %s" % (type(e).__name__, e)})
    sys.exit(0)


def mkstream(data):
    return DataStream(data, byte_order="big", is_signed=False)


def mkconfig(plugins=True, every=True):
    c = Config()
    c.allow_plugins = plugins
    c.every_pel = every
    return c


def cache_state():
    return {"callout": sorted((k, v is None)
                              for k, v in S.calloutParsers.items()),
            "src": sorted((k, v is None) for k, v in S.srcParsers.items()),
            "comp": sorted(comp_id.componentIDs),
            "attempted": comp_id.attemptedToParseCompIDs}


# ---- E. component ids (first: nothing has been looked up yet) -------------
COMPS = [0, 0x1000, 0x2000, 0x4142, 0x4100, 0x0041, 0xFFFF, 0xBEEF, 0xE500,
         0x7A7A, 0x100, 0x12345, -1]
CREATORS = list("BCHKLMOPST") + ["Z", "Q", "N", "?", "", "o", "h"]


def comp_sweep(tag):
    for cr in CREATORS:
        for c in COMPS:
            guarded("comp", "%s/%s/%s" % (tag, cr, c),
                    lambda: comp_id.getDisplayCompID(c, cr))
    guarded("comp", tag + "/float", lambda: comp_id.getDisplayCompID(1.5, "O"))
    guarded("comp", tag + "/phypstr",
            lambda: comp_id.getDisplayCompID("41", "H"))
    guarded("comp", tag + "/unhashable",
            lambda: comp_id.getDisplayCompID(1, ["O"]))
    emit({"k": "compstate", "id": tag, "state": cache_state(),
          "ids": json.dumps(comp_id.componentIDs, sort_keys=True)})


guarded("comp", "first", lambda: comp_id.getDisplayCompID(0x1000, "O"))
guarded("comp", "second", lambda: comp_id.getDisplayCompID(0x1000, "O"))
comp_sweep("initial")
guarded("comp", "explicit-reload", lambda: comp_id.getAllCreatorsCompIDs())

# ---- D. registry ----------------------------------------------------------
CODES = ["0x1000", "0x1001", "0x1002", "0x2000", "0x2004", "0x2005", "0x2009",
         "0x3000", "0x3001", "0x2FFF", "0x0010", "0x", "", "0x10", "1000",
         "0xFFFF", "zz"]
TYPES = ["BD", "11", "BC", "B7", "", "bd"]
for code in CODES:
    for t in TYPES:
        guarded("reg", code + "/" + t,
                lambda: S.registry.getErrorMessage(code, t))
guarded("reg", "new-instance", lambda: len(registry_mod.Registry().pels))
guarded("reg", "loadJson-missing",
        lambda: S.registry.loadJson(os.path.join(work, "nope.json")))
guarded("reg", "loadJson-nokey", lambda: S.registry.loadJson(
    os.path.join(work, "reg_nokey", "pel_registry", "message_registry.json")))
guarded("reg", "loadJson-cases",
        lambda: S.registry.loadJson(os.path.join(work, "cases.json")))

SYNTH = [
    [{"Documentation": {"Message": "no src"}}],
    [{"SRC": "ReasonCode as text", "Documentation": {"Message": "m"}}],
    [{"SRC": ["ReasonCode"], "Documentation": {"Message": "m"}}],
    [{"SRC": {"ReasonCode": "0x1000"}}],
    [{"SRC": {"ReasonCode": "0x1000"}, "Documentation": "Message"}],
    [{"SRC": {"ReasonCode": 4096}, "Documentation": {"Message": "m"}}],
    [{"SRC": {"ReasonCode": None}, "Documentation": {"Message": "m"}}],
    [{"SRC": {"ReasonCode": "0x1000", "Type": None},
      "Documentation": {"Message": "m"}}],
    [{"SRC": {"ReasonCode": "0x1000", "Words6To9": {"6": {}}},
      "Documentation": {"Message": "m", "MessageArgSources": "SRCWord6"}}],
    [{"SRC": {"ReasonCode": "0x1000", "Words6To9": []},
      "Documentation": {"Message": "m", "MessageArgSources": ()}}],
    [{"SRC": {"ReasonCode": "0x1000", "Words6To9": [1]},
      "Documentation": {"Message": "m"}}],
    [{"SRC": {"Type": "BD"}}, {"SRC": {"ReasonCode": "0x1000", "Type": "BC"}},
     {"SRC": {"ReasonCode": "0x1000"},
      "Documentation": {"Message": "third"}}],
    [],
    None,
    "text",
]
saved_pels = S.registry.pels
for i, pels in enumerate(SYNTH):
    S.registry.pels = pels
    for t in ("BD", "BC", None):
        guarded("regsynth", "%d/%s" % (i, t),
                lambda: S.registry.getErrorMessage("0x1000", t))
    s = S.SRC(mkstream(b""), 0x5053, 80, 1, 0, 0x1000, "O")
    s.hexData = [10, 11, 12, 13, 14, 15, 16, 17]

    def run():
        out = {}
        s.getErrorDetails(out, "1000", "BD")
        return out
    guarded("regsynth-details", str(i), run)
S.registry.pels = saved_pels

# ---- B. identity structures / callouts -------------------------------------
FRU_ATTRS = ["type", "size", "flags", "pnOrProcedureID", "ccin", "sn",
             "flattenedSize"]
PCE_ATTRS = ["type", "flattenedSize", "flags", "machineType", "serialNumber",
             "pceNameSize", "pceName"]
MRU_ATTRS = ["type", "flattenedSize", "flags", "reserved4B"]


def attrs(obj, names):
    return None if obj is None else \
        [[n, getattr(obj, n, MISSING)] for n in names]


def mru_attrs(m):
    if m is None:
        return None
    return attrs(m, MRU_ATTRS) + [[(x.priority, x.id) for x in m.mrus]]


def callout_attrs(c):
    return {"base": attrs(c, ["size", "flags", "priority", "locationCode",
                              "locationCodeSize"]),
            "fru": attrs(c.fruIdentity, FRU_ATTRS),
            "pce": attrs(c.pceIdentity, PCE_ATTRS),
            "mru": mru_attrs(c.mru),
            "flat": c.flattenedSize()}


for i, blob in enumerate(BLOBS):
    def fru():
        st = mkstream(blob)
        return [attrs(S.FRUIdentity(st), FRU_ATTRS), st.index]

    def pce():
        st = mkstream(blob)
        return [attrs(S.PCEIdentity(st), PCE_ATTRS), st.index]

    def mru():
        st = mkstream(blob)
        return [mru_attrs(S.MRU(st)), st.index]

    def callout():
        st = mkstream(blob)
        return [callout_attrs(S.Callout(st)), st.index]

    guarded("fru", i, fru)
    guarded("pce", i, pce)
    guarded("mru", i, mru)
    guarded("callout", i, callout)

for i, blob in enumerate(CSECS):
    for cr in ("Z", "O"):
        for plugins in (True, False):
            def callouts():
                st = mkstream(blob)
                s = S.SRC(st, 0x5053, 80, 1, 0, 0x1000, cr)
                out = {"pre": 1}
                try:
                    s.getCallouts(out, mkconfig(plugins))
                finally:
                    out["index"] = st.index
                    out_copy.clear()
                    out_copy.update(out)
                return out
            out_copy = {}
            rec = guarded("getCallouts", "%d/%s/%s" % (i, cr, plugins),
                          callouts)
            if "exc" in rec:
                emit({"k": "getCallouts-partial", "id": i, "out": out_copy})
guarded("get_value", 0, lambda: [S.get_value(memoryview(b"\x01\x02\x03"), a, b)
                                 for a in range(5) for b in range(4)])

# ---- C. SRC methods --------------------------------------------------------
DETAILS = [
    {},
    {"Message": ""},
    {"Message": "plain"},
    {"Message": "plain {} braces"},
    {"Message": "%1", "MessageArgSources": ["SRCWord2"]},
    {"Message": "%1 %2 %9 %0 %%1", "MessageArgSources":
        ["SRCWord9", "SRCWord8", "SRCWord2"]},
    {"Message": "%1 %2", "MessageArgSources": ["SRCWord6"]},
    {"Message": "none", "MessageArgSources": ["SRCWord6", "SRCWord7"]},
    {"Message": "{0} {1} %1", "MessageArgSources": ["SRCWord6"]},
    {"Message": "%1", "MessageArgSources": ["SRCWord", "x"]},
    {"Message": "%1", "MessageArgSources": [""]},
    {"Message": "%1", "MessageArgSources": ["SRCWord1"]},
    {"Message": "%1", "MessageArgSources": []},
    {"Message": "%1", "MessageArgSources": None},
    {"Message": None, "MessageArgSources": ["SRCWord5"]},
    {"Message": None},
    {"MessageArgSources": ["SRCWordX"]},
    {"Message": "m", "Words6To9": {}},
    {"Message": "m", "Words6To9": None},
    {"Message": "m", "Words6To9": {"6": {"Description": "six",
                                         "AdditionalDataPropSource": "A"},
                                   "7": {"AdditionalDataPropSource": "B"},
                                   "9": {"Description": "nine",
                                         "AdditionalDataPropSource": "A"}}},
    {"Message": "m", "Words6To9": {"10": {"Description": "x",
                                          "AdditionalDataPropSource": "A"}}},
    {"Message": "m", "Words6To9": {"1": {"Description": "neg",
                                         "AdditionalDataPropSource": "A"}}},
    {"Message": "m", "Words6To9": {"6": {"Description": "x"}}},
    {"Message": "m", "Words6To9": {"six": {"Description": "x",
                                           "AdditionalDataPropSource": "A"}}},
    {"Message": "m", "Words6To9": {"6": "Description"}},
    {"Message": "m", "Words6To9": ["6"]},
]
for hexData in ([0x10, 0x21, 0x32, 0x43, 0x54, 0x65, 0x76, 0xFFFFFFFF],
                [1, 2, 3], []):
    for i, d in enumerate(DETAILS):
        s = S.SRC(mkstream(b""), 0x5053, 80, 1, 0, 0x1000, "O")
        s.hexData = list(hexData)
        ident = "%d/%d" % (len(hexData), i)
        guarded("buildMessage", ident, lambda: s.buildMessage(d))

        def descs():
            r = s.buildHexwordDescs(d)
            return None if r is None else [type(r).__name__, list(r.items())]
        guarded("buildHexwordDescs", ident, descs)
for code in ["1000", "1001", "1002", "2000", "2001", "2002", "2003", "2004",
             "2005", "2006", "2007", "2008", "2009", "200A", "200B", "200C",
             "3001", "2FFF", "0010", "9999", ""]:
    for t in ("BD", "11", "BC", "XX"):
        s = S.SRC(mkstream(b""), 0x5053, 80, 1, 0, 0x1000, "O")
        s.hexData = [0x10, 0x21, 0x32, 0x43, 0x54, 0x65, 0x76, 0x87]

        def details():
            out = {"pre": 1}
            s.getErrorDetails(out, code, t)
            return [type(out.get("Error Details")).__name__,
                    list(out.items())]
        guarded("getErrorDetails", code + "/" + t, details)

for rnd in (1, 2):
    for cr in ["Z", "z", "O", "T", "Q", "B", "X", ".", "", "Z.", "\u00e9"]:
        for proc in ["PROC0001", "PROC0002", "PROC0003", "PROC0004",
                     "PROC0005", "BMC0001", "BMC0002", "nope", ""]:
            s = S.SRC(mkstream(b""), 0x5053, 80, 1, 0, 0x1000, cr)

            def desc():
                out = {"pre": 1}
                r = s.getProcedureDesc(proc, out)
                return [r, out]
            guarded("getProcedureDesc", "%d/%s/%s" % (rnd, cr, proc), desc)
        for hexwords in (["%08X" % (0x02000000 + i) for i in range(8)],
                         ["02000001"] * 8, ["02000002"] * 9,
                         ["02000003"] * 8, ["02000004"] * 8,
                         ["02000005"] * 12, ["1"] * 7, [],
                         tuple("abcdefgh"), "0123456789"):
            s = S.SRC(mkstream(b""), 0x5053, 80, 1, 0, 0x1000, cr)
            s.asciiString = "BD8D1000   "
            guarded("parse", "%d/%s/%s" % (rnd, cr, len(hexwords)),
                    lambda: s.parse(hexwords))
    emit({"k": "caches", "id": rnd, "state": cache_state()})

SRC_ATTRS = ["version", "flags", "reserved1B", "wordCount", "reserved2B",
             "size", "hexData", "srcType", "asciiString", "sectionID",
             "sectionLen", "versionID", "subType", "componentID", "creatorID"]
for i, body in enumerate(SRCS):
    for cr in ("Z", "O", "H"):
        for plugins in (True, False):
            holder = {}

            def tojson():
                st = mkstream(body)
                s = S.SRC(st, 0x5053, 8 + len(body), 1, 1, 0xE500, cr)
                holder["s"], holder["st"] = s, st
                return s.toJSON(mkconfig(plugins))
            guarded("toJSON", "%d/%s/%s" % (i, cr, plugins), tojson)
            emit({"k": "toJSON-state", "id": i,
                  "attrs": attrs(holder.get("s"), SRC_ATTRS),
                  "index": holder["st"].index})
    # two SRC bodies decoded with the same object
    holder = {}

    def twice():
        st = mkstream(body + SRCS[(i + 1) % len(SRCS)])
        s = S.SRC(st, 0x5053, 80, 1, 1, 0xE500, "Z")
        holder["s"], holder["st"] = s, st
        return [s.toJSON(mkconfig(True)), s.toJSON(mkconfig(True))]
    guarded("toJSON-twice", i, twice)
    emit({"k": "toJSON-twice-state", "id": i,
          "attrs": attrs(holder.get("s"), SRC_ATTRS),
          "index": holder["st"].index})

# ---- A. whole PELs ---------------------------------------------------------
def decode(i, data, plugins, every):
    guarded("parsePEL", "%d/%s/%s" % (i, plugins, every),
            lambda: PT.parsePEL(mkstream(data), mkconfig(plugins, every),
                                False))


for i, data in enumerate(PELS):
    decode(i, data, True, True)
    decode(i, data, False, True)
    if i % 5 == 0:
        decode(i, data, True, False)
        guarded("summary", i, lambda: PT.parsePELSummary(
            mkstream(data), mkconfig(True, True)))
    if i % 50 == 0:
        guarded("parsePEL-exit", i, lambda: PT.parsePEL(
            mkstream(data), mkconfig(True, True), True))
emit({"k": "caches", "id": "after-pels", "state": cache_state()})
# repeated decodes in the same process, other order
for i in range(min(len(PELS), 400) - 1, -1, -3):
    decode(i, PELS[i], True, True)

# ---- E2. component ids from a BMC style directory --------------------------
comp_sweep("final")
comp_id.componentIDs.clear()
comp_id.attemptedToParseCompIDs = False
comp_id.pelConfigRootPath = os.path.join(work, "bmc_pels")
comp_sweep("bmcdir")
comp_id.componentIDs.clear()
comp_sweep("cleared-no-retry")
comp_id.attemptedToParseCompIDs = False
comp_id.pelConfigRootPath = os.path.join(work, "bmc_pels", "O_component_ids.json")
guarded("comp", "root-is-file", lambda: comp_id.getDisplayCompID(0x1000, "O"))
guarded("comp", "root-is-file-2", lambda: comp_id.getDisplayCompID(0x1000, "O"))
emit({"k": "done", "n": nrec + 1, "state": cache_state()})
'''

# --------------------------------------------------------------------------
# running and comparing
# --------------------------------------------------------------------------
ENVS = {
    "full": (["plugins", "reg"], []),
    "full-O": (["plugins", "reg"], ["-O"]),
    "noreg": (["plugins"], []),
    "noplugins": (["reg"], []),
    "reg_bad": (["plugins", "reg_bad"], []),
    "reg_missing": (["plugins", "reg_missing"], []),
    "reg_nokey": (["plugins", "reg_nokey"], []),
}


def env_for(root, work, parts):
    env = dict(os.environ)
    paths = [os.path.join(work, p) for p in parts]
    paths.append(os.path.join(root, "modules"))
    env["PYTHONPATH"] = os.pathsep.join(paths)
    env["PYTHONDONTWRITEBYTECODE"] = "1"
    env["PYTHONHASHSEED"] = "0"
    return env


def run_driver(root, work, envname):
    parts, pyflags = ENVS[envname]
    p = subprocess.run([PY] + pyflags + [os.path.join(work, "driver.py"), work],
                       env=env_for(root, work, parts), cwd=work,
                       stdout=subprocess.PIPE, stderr=subprocess.PIPE)
    return p.returncode, p.stdout.decode("utf-8", "replace"), \
        p.stderr.decode("utf-8", "replace").replace(root, "<ROOT>")


def snapshot(d):
    out = {}
    for base, _, files in os.walk(d):
        for f in files:
            full = os.path.join(base, f)
            with open(full, "rb") as fd:
                out[os.path.relpath(full, d)] = fd.read().hex()
    return out


def cli_cases(inputs):
    some = sorted(os.listdir(inputs))
    cases = []
    for f in some:
        cases.append(["-f", "IN/" + f])
    for f in some[:6]:
        cases.append(["-f", "IN/" + f, "-P"])
        cases.append(["-f", "IN/" + f, "-x"])
    cases.append(["-f", "IN/" + some[0], "-c"])
    cases.append(["-f", "IN/missing"])
    for opts in (["-l"], ["-l", "-E"], ["-l", "-E", "-r"], ["-l", "-H", "-O"],
                 ["-l", "-E", "-P"], ["-l", "-e", ".pel"], ["-a"],
                 ["-a", "-E"], ["-a", "-E", "-P"], ["-a", "-E", "-x"],
                 ["-n"], ["-n", "-E"], ["-l", "-S", "Informational"],
                 ["--src", "BD8D1000", "-E"], ["--src", "11", "-E"],
                 ["--plid", "50000001", "-E"], ["-i", "50000003"],
                 ["--bmc-id", "2"], ["-j", "-o", "OUT", "-E"],
                 ["-j", "-o", "OUT", "-E", "-P"], ["-j", "-o", "OUT"],
                 ["-j", "-o", "OUT", "-E", "-c"], ["-j", "-E"]):
        cases.append(["-p", "IN"] + opts)
    return cases


def run_cli(root, work, inputs, args, pyflags=()):
    run = os.path.join(work, "run")
    if os.path.exists(run):
        shutil.rmtree(run)
    os.makedirs(os.path.join(run, "OUT"))
    shutil.copytree(inputs, os.path.join(run, "IN"))
    cmd = [PY] + list(pyflags) + [os.path.join(
        root, "modules", "pel", "peltool", "peltool.py")] + args
    p = subprocess.run(cmd, env=env_for(root, work, ["plugins", "reg"]),
                       cwd=run, stdout=subprocess.PIPE,
                       stderr=subprocess.PIPE, stdin=subprocess.DEVNULL)
    res = {"rc": p.returncode, "out": p.stdout.decode("utf-8", "replace"),
           "err": p.stderr.decode("utf-8", "replace").replace(root, "<ROOT>"),
           "files": snapshot(run)}
    shutil.rmtree(run)
    return res


def cli_inputs(work):
    inputs = os.path.join(work, "cli_inputs")
    os.makedirs(inputs)
    c_full = callout_section([
        callout([fru(0x1D), pce(), mru([(0x48, 0x00010203), (0x4C, 0xFFFFFFFF)])]),
        callout([fru(0x42, b"PROC0001")], priority=0x4D, loc=b""),
        callout([fru(0x42, b"BMC0001\0")], priority=0x4C),
        callout([pce(size=10)])])
    c_ok = callout_section([
        callout([fru(0x1D), pce(), mru([(0x48, 0x00010203), (0x4C, 0xFFFFFFFF)])]),
        callout([fru(0x42, b"PROC0001")], priority=0x4D, loc=b""),
        callout([fru(0x42, b"BMC0002\0"), mru([(1, 2)])], priority=0x4C)])
    files = {
        "a_50000001.pel": pel(b"O", [section(0x5053, src_body(
            flags=0x01, callouts=c_ok)), section(0x5858, b"12345678")]),
        "b_50000002.pel": pel(b"Z", [section(0x5053, src_body(
            b"BD8D1001", flags=0x01, callouts=c_ok)),
            section(0x5353, src_body(b"11001001"))], eid=0x50000002, logid=2),
        "c_50000003": pel(b"B", [section(0x5053, src_body(
            b"BC8A1002", flags=0x01, callouts=c_ok))], eid=0x50000003,
            sev=0x00, action=0x4000, logid=3),
        "d_50000004.pel": pel(b"Z", [section(0x5053, src_body(
            b"BD8D2000"))], eid=0x50000004),
        "e_50000005.pel": pel(b"Z", [section(0x5053, src_body(
            flags=0x01, callouts=c_full))], eid=0x50000005),
        "f_50000006.pel": pel(b"T", [section(0x5053, src_body(
            flags=0x01, callouts=c_ok))], eid=0x50000006),
        "g_50000007.pel": pel(b"Z", [section(0x5053, src_body(
            wordcount=12))], eid=0x50000007),
        "h_50000008.pel": pel(b"H", [section(0x5053, src_body(
            b"B7001111", words=[0x02000003] + [0] * 7))], eid=0x50000008,
            comp=0x4142),
        "i_50000009.pel": pel(b"Z", [section(0x5053, src_body(
            flags=0x01, callouts=c_ok))], eid=0x50000009)[:150],
        "j_5000000A.pel": pel(b"Q", [section(0x5053, src_body(
            b"BD8D2009", flags=0x01, callouts=c_ok))], eid=0x5000000A,
            sev=0x51),
        "k_garbage.pel": b"this is not a pel at all, but long enough........",
        "l_5000000C.txt": pel(b"Z", [section(0x5053, src_body(
            b"BD8D3001", words=[0x02000003] + [7] * 7))], eid=0x5000000C),
    }
    for name, data in files.items():
        with open(os.path.join(inputs, name), "wb") as f:
            f.write(data)
    return inputs


def main():
    if len(sys.argv) != 3:
        sys.exit("usage: diffcheck.py <pristine_root> <patched_root>")
    roots = [os.path.abspath(a) for a in sys.argv[1:3]]
    work = tempfile.mkdtemp(prefix="work_", dir=HERE)
    ncases = 0
    diffs = []
    try:
        build_fakes(work)
        pels, blobs, srcs, csecs = make_cases()
        with open(os.path.join(work, "cases.json"), "w") as f:
            json.dump({"pels": [p.hex() for p in pels],
                       "blobs": [b.hex() for b in blobs],
                       "srcs": [s.hex() for s in srcs],
                       "csecs": [c.hex() for c in csecs]}, f)
        with open(os.path.join(work, "driver.py"), "w") as f:
            f.write(DRIVER)

        for envname in ENVS:
            res = [run_driver(r, work, envname) for r in roots]
            la, lb = res[0][1].splitlines(), res[1][1].splitlines()
            if not la or '"k": "import"' not in la[0]:
                diffs.append("%s: driver produced no output: %s" %
                             (envname, res[0][2][-2000:]))
                continue
            if '"ok": true' in la[0] and '"k": "done"' not in la[-1]:
                diffs.append("%s: driver did not finish (rc=%s): %s" %
                             (envname, res[0][0], res[0][2][-2000:]))
            if res[0][0] != res[1][0]:
                diffs.append("%s: driver rc %s != %s" %
                             (envname, res[0][0], res[1][0]))
            if res[0][2] != res[1][2]:
                diffs.append("%s: driver stderr differs:\n%s\n---\n%s" %
                             (envname, res[0][2][-1500:], res[1][2][-1500:]))
            if len(la) != len(lb):
                diffs.append("%s: record count %d != %d" %
                             (envname, len(la), len(lb)))
            for a, b in zip(la, lb):
                ncases += 1
                if a != b:
                    diffs.append("%s:\n  pristine: %s\n  patched:  %s" %
                                 (envname, a[:1500], b[:1500]))

        inputs = cli_inputs(work)
        for args in cli_cases(inputs):
            flagsets = [()]
            if args[:2] == ["-p", "IN"] and args[2] in ("-a", "-j"):
                flagsets.append(("-O",))
            for pyflags in flagsets:
                a = run_cli(roots[0], work, inputs, args, pyflags)
                b = run_cli(roots[1], work, inputs, args, pyflags)
                ncases += 1
                if a != b:
                    for key in a:
                        if a[key] != b[key]:
                            diffs.append("CLI %s %s: %s differs:\n%s\n---\n%s" % (
                                pyflags, args, key, str(a[key])[:1500],
                                str(b[key])[:1500]))
    finally:
        if os.environ.get("DIFFCHECK_KEEP"):
            print("work dir kept: " + work)
        else:
            shutil.rmtree(work, ignore_errors=True)

    if diffs:
        print("DIFFERENT: %d difference(s) in %d cases" % (len(diffs), ncases))
        for d in diffs[:25]:
            print(d)
        sys.exit(1)
    print("IDENTICAL (%d cases)" % ncases)
    sys.exit(0)


if __name__ == "__main__":
    main()
