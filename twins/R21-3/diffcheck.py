#!/usr/bin/env python
"""
Differential check for refactorings of modules/pel/peltool/peltool.py.

usage: diffcheck.py <pristine_root> <patched_root>

Builds a corpus of binary PELs (well-formed, truncated, corrupted, random),
then exercises peltool of both trees
  * in-process (one driver subprocess per tree, normal and `python -O`):
    direct calls of the module functions and many main() invocations,
  * as a real CLI in subprocesses,
and compares every observable (stdout, stderr, exit status / exception,
stream position, resulting directory contents).

Prints "IDENTICAL (<n> cases)" and exits 0 when nothing differs, exits 1
otherwise.
"""
import hashlib
import json
import os
import random
import re
import shutil
import struct
import subprocess
import sys
import tempfile

PY = sys.executable

# --------------------------------------------------------------------------
# Building binary PELs
# --------------------------------------------------------------------------

TS = bytes.fromhex('2024031512304599')
TS2 = bytes.fromhex('2023122301020304')


def hdr(sid, length, ver=1, sub=0, comp=0x2000):
    return struct.pack('>HHBBH', sid & 0xFFFF, length & 0xFFFF, ver, sub, comp)


def sect(sid, body, ver=1, sub=0, comp=0x2000, length=None):
    if length is None:
        length = len(body) + 8
    return hdr(sid, length, ver, sub, comp) + body


def PH(count, creator=b'O', obmc=1, plid=0x50000001, eid=0x50000001,
       comp=0x2000, sid=0x5048, ver=1, sub=0, t1=TS, t2=TS2):
    body = t1 + t2 + creator + b'\x00\x00' + bytes([count & 0xFF]) + \
        struct.pack('>IQII', obmc, 0x0102030405060708, plid, eid)
    return sect(sid, body, ver, sub, comp)


def UH(sev=0x40, action=0xA800, subsys=0x72, scope=3, etype=0, states=0,
       comp=0x2000, sid=0x5548):
    body = struct.pack('>BBBBIBBHI', subsys, scope, sev, etype, 0, 1, 2,
                       action, states)
    return sect(sid, body, 1, 0, comp)


def fru(flags, pn=b'PN12345\x00', ccin=b'CCIN', sn=b'SN0123456789'):
    body = b''
    if flags & 0x08 or flags & 0x02:
        body += pn
    if flags & 0x04:
        body += ccin
    if flags & 0x01:
        body += sn
    return struct.pack('>HBB', 0x4944, 4 + len(body), flags) + body


def pce(name=b'pcename\x00'):
    return struct.pack('>HBB', 0x5045, 4 + 8 + 12 + len(name), 0) + \
        b'9105-22A' + b'SERIAL123456' + name


def mru(ids=(1, 2, 3)):
    body = b''.join(struct.pack('>II', 0x48, i) for i in ids)
    return struct.pack('>HBBI', 0x4D52, 8 + len(body), len(ids), 0) + body


def callout(loc=b'U78DA.ND1-P0\x00\x00\x00\x00', subs=(), prio=ord('H')):
    body = loc + b''.join(subs)
    return bytes([4 + len(body), 0, prio, len(loc)]) + body


def callouts(items):
    body = b''.join(items)
    total = 4 + len(body)
    return struct.pack('>BBH', 0xC0, 0, total // 4) + body


def SRC(ascii_=b'BD8D1234', flags=0, wordcount=9, words=None, co=None,
        sid=0x5053, comp=0x2000):
    if words is None:
        words = [0x020000F0, 0x2E2D0010, 0x11, 0x03000000, 0xA, 0xB, 0xC, 0xD]
    a = ascii_.ljust(32, b' ')[:32]
    body = struct.pack('>BBBBHH', 2, flags, 0, wordcount, 0, 72) + \
        b''.join(struct.pack('>I', w & 0xFFFFFFFF) for w in words) + a
    if co is not None:
        body += co
    return sect(sid, body, 1, 1, comp)


def EH(symptom=b'BD8D1234_2E2D0010\x00\x00\x00'):
    body = b'9105-22A' + b'SERIAL123456' + b'fw1030.00-1'.ljust(16, b'\x00') + \
        b'fw1030.00-1-sub'.ljust(16, b'\x00') + b'\x00' * 4 + TS + \
        b'\x00\x00\x00' + bytes([len(symptom)]) + symptom
    return sect(0x4548, body)


def MT():
    return sect(0x4D54, b'9105-22A' + b'SERIAL123456')


def UD(data, sub=1, comp=0x2000, ver=1, length=None):
    return sect(0x5544, data, ver, sub, comp, length)


def ED(data, creator=b'O', sub=1, comp=0x2000):
    return sect(0x4544, creator + b'\x00\x00\x00' + data, 1, sub, comp)


def LP(name=b'lpar-name\x00\x00\x00', targets=(1, 2, 3)):
    body = struct.pack('>HBBI', 7, len(name), len(targets), 0x1234) + name + \
        b''.join(struct.pack('>H', t) for t in targets)
    if len(targets) % 2:
        body += b'\x00\x00'
    return sect(0x4C50, body)


def pel(sections, count=None, **kw):
    uhkw = {k[3:]: kw.pop(k) for k in list(kw) if k.startswith('uh_')}
    if count is None:
        count = 2 + len(sections)
    return PH(count, **kw) + UH(**uhkw) + b''.join(sections)


JSON_UD = json.dumps({"Key One": "value", "Nested": {"a": 1, "b": [1, 2]},
                      "quote\"d {key": "x: {y}", "colon": "a\": b"}).encode()
TEXT_UD = b'line one\nline two \x01\x02\nlast "quoted": line\n\x00\x00'


def build_corpus(root, rnd):
    """returns nothing, fills root/single and root/dirs/*"""
    single = os.path.join(root, 'single')
    os.makedirs(single)
    good = {}

    co_all = callouts([
        callout(subs=[fru(0x08 | 0x04 | 0x01 | 0x10)]),
        callout(loc=b'', subs=[fru(0x02 | 0x30, pn=b'BMC0001\x00')]),
        callout(subs=[fru(0x02 | 0x30, pn=b'NOSUCH1\x00'), pce(), mru()]),
        callout(subs=[pce(b''), mru(())], prio=ord('M')),
        callout(subs=[]),
    ])

    sevs = [0x00, 0x10, 0x20, 0x21, 0x40, 0x51, 0x60, 0x70, 0x44, 0xF0]
    actions = [0x0000, 0x8000, 0x4000, 0x2000, 0xA800, 0x6000, 0xC000, 0xFFFF]
    n = 0
    for sev in sevs:
        for action in (rnd.sample(actions, 3) + [0xA800]):
            n += 1
            eid = 0x50000000 + n
            secs = [SRC(ascii_=b'BD%02X%04X' % (0x8D + n % 3, 0x1000 + n),
                        flags=rnd.choice([0, 0x80, 0x10, 0x04])),
                    EH(), MT(), UD(JSON_UD)]
            good['s%02X_a%04X' % (sev, action)] = pel(
                secs, eid=eid, plid=0x50000000 + (n // 2), obmc=n,
                uh_sev=sev, uh_action=action)

    # section variety
    good['callouts'] = pel([SRC(flags=1, co=co_all), EH(), MT()],
                           eid=0x500000A1, plid=0x500000A1, obmc=161)
    good['multi_ud'] = pel([SRC(), UD(JSON_UD), UD(TEXT_UD, sub=3),
                            UD(b'\x01\x02\x03', sub=2), UD(b'\xff' * 20, sub=9),
                            UD(b'{not json', sub=1), UD(b'', sub=1),
                            ED(JSON_UD), ED(b'abcdef', creator=b'H', comp=0x4142),
                            ED(b'abcdef', creator=b'Z', comp=0x1)],
                           eid=0x500000A2, plid=0x500000A2, obmc=162)
    good['second_src'] = pel([SRC(), SRC(sid=0x5353, ascii_=b'BC8A0001'),
                              SRC(sid=0x5353, ascii_=b'11001234', flags=1,
                                  co=callouts([callout(subs=[fru(0x08)])]))],
                             eid=0x500000A3, plid=0x500000A3, obmc=163)
    good['unknown_sections'] = pel(
        [sect(0x4448, b'dump location data'), sect(0x5A5A, b'\x00' * 33),
         sect(0x5357, b''), LP(), LP(b'', ()), LP(b'x', (9,)),
         sect(0x0000, b'zero id'), sect(0x4448, b'again')],
        eid=0x500000A4, plid=0x500000A4, obmc=164)
    good['no_src'] = pel([EH(), MT(), UD(TEXT_UD, sub=3)], eid=0x500000A5,
                         plid=0x500000A5, obmc=165)
    good['src_not_first'] = pel([UD(JSON_UD), EH(), SRC(ascii_=b'BD8D9999')],
                                eid=0x500000A6, plid=0x500000A1, obmc=166)
    good['only_headers'] = pel([], eid=0x500000A7, plid=0x500000A7, obmc=167)
    good['hostboot'] = pel([SRC(ascii_=b'BC8A1234', comp=0x0100),
                            UD(b'\x00\x01\x02\x03' * 8, sub=4, comp=0x0100)],
                           creator=b'B', comp=0x0100, eid=0x900000A8,
                           plid=0x900000A8, obmc=168)
    good['phyp'] = pel([SRC(ascii_=b'B7001111', comp=0x4142),
                        UD(b'phyp data', comp=0x4142), UD(b'x', comp=0x0041)],
                       creator=b'H', comp=0x4142, eid=0xB00000A9,
                       plid=0xB00000A9, obmc=169)
    good['iodrawer'] = pel([SRC(ascii_=b'B1234567'),
                            UD(b'\x00' * 64, sub=1, comp=0x2C00),
                            UD(b'\x01' * 40, sub=2, comp=0x2C00, ver=2)],
                           creator=b'M', comp=0x2C00, eid=0x500000AA,
                           plid=0x500000AA, obmc=170)
    good['oe500'] = pel([SRC(ascii_=b'BDE50001', comp=0xE500),
                         UD(b'\x00' * 48, sub=1, comp=0xE500),
                         UD(b'\x02' * 48, sub=2, comp=0xE500)],
                        eid=0x500000AB, plid=0x500000AB, obmc=171,
                        comp=0xE500)
    good['unknown_creator'] = pel([SRC(ascii_=b'XX001234'), UD(b'data')],
                                  creator=b'X', eid=0x500000AC,
                                  plid=0x500000AC, obmc=172)
    good['wordcount_big'] = pel([SRC(wordcount=12)], eid=0x500000AD, obmc=173)
    good['wordcount_small'] = pel([SRC(wordcount=1), UD(JSON_UD)],
                                  eid=0x500000AE, obmc=174)
    good['count_too_big'] = pel([SRC(), UD(JSON_UD)], count=9,
                                eid=0x500000AF, obmc=175)
    good['count_too_small'] = pel([SRC(), UD(JSON_UD), MT()], count=3,
                                  eid=0x500000B0, obmc=176)
    good['count_zero'] = pel([SRC()], count=0, eid=0x500000B1, obmc=177)
    good['bad_ph_id'] = pel([SRC()], sid=0x5049, eid=0x500000B2, obmc=178)
    good['bad_uh_id'] = pel([SRC()], uh_sid=0x5549, eid=0x500000B3, obmc=179)
    good['creator_nonascii'] = pel([SRC()], creator=b'\xff', eid=0x500000B4)
    good['ud_len_short'] = pel([UD(b'abcd', length=4), MT()], eid=0x500000B5)
    good['ud_len_long'] = pel([UD(b'abcd', length=4000), MT()], eid=0x500000B6)
    good['src_bad_ascii'] = pel([SRC(ascii_=b'\xff\xfe' + b'A' * 30)],
                                eid=0x500000B7)
    good['trailing_garbage'] = pel([SRC(), MT()], eid=0x500000B8) + b'junk' * 5
    good['bmc_same_id_a'] = pel([SRC(ascii_=b'BD8D7777')], obmc=4242,
                                eid=0x500000C1, plid=0x500000C1)
    good['bmc_same_id_b'] = pel([SRC(ascii_=b'BD8D7778')], obmc=4242,
                                eid=0x500000C2, plid=0x500000C1)
    good['lowercase_eid'] = pel([SRC(ascii_=b'bd8d7779')], obmc=4243,
                                eid=0xABCDEF01, plid=0xABCDEF01)

    for name, data in good.items():
        with open(os.path.join(single, 'good_' + name), 'wb') as f:
            f.write(data)

    base = good['callouts']
    for cut in list(range(0, 90, 3)) + list(range(90, len(base), 11)):
        with open(os.path.join(single, 'trunc_%04d' % cut), 'wb') as f:
            f.write(base[:cut])
    base2 = good['multi_ud']
    for cut in range(72, len(base2), 17):
        with open(os.path.join(single, 'trunc2_%04d' % cut), 'wb') as f:
            f.write(base2[:cut])
    for i in range(90):
        src = bytearray(rnd.choice([good['callouts'], good['multi_ud'],
                                    good['unknown_sections'],
                                    good['second_src']]))
        for _ in range(rnd.choice([1, 1, 2, 5])):
            pos = rnd.randrange(len(src)) if i % 3 else rnd.randrange(80)
            src[pos] = rnd.randrange(256)
        with open(os.path.join(single, 'corrupt_%03d' % i), 'wb') as f:
            f.write(bytes(src))
    for i in range(25):
        blob = bytes(rnd.randrange(256) for _ in range(rnd.choice([1, 7, 8, 47, 48, 72, 300])))
        if i % 2:
            blob = b'PH\x00\x30' + blob
        with open(os.path.join(single, 'random_%03d' % i), 'wb') as f:
            f.write(blob)
    with open(os.path.join(single, 'empty'), 'wb') as f:
        pass

    # Directories for the directory based modes.  File names look like the
    # ones phosphor-logging creates: <timestamp>_<EID>
    dirs = os.path.join(root, 'dirs')

    def mkdir(name, entries):
        d = os.path.join(dirs, name)
        os.makedirs(d)
        for fname, data in entries:
            with open(os.path.join(d, fname), 'wb') as f:
                f.write(data)
        return d

    def eid_of(data):
        return '%08X' % struct.unpack('>I', data[44:48])[0]

    mixed = []
    picks = [k for k in good if not k.startswith('s')] + \
        [k for k in good if k.startswith('s')][::3]
    for i, k in enumerate(picks):
        ext = ['', '.pel', '', '.txt'][i % 4]
        mixed.append(('20240315%06d00_%s%s' % (i, eid_of(good[k]), ext), good[k]))
    mixed.append(('zz_truncated_500000A1', good['callouts'][:100]))
    mixed.append(('aa_random.pel', bytes(rnd.randrange(256) for _ in range(200))))
    mixed.append(('empty_file', b''))
    mixed.append(('notes.txt', b'hello, this is not a PEL\n'))
    d1 = mkdir('mixed', mixed)
    os.makedirs(os.path.join(d1, 'archive'))
    with open(os.path.join(d1, 'archive', '2020_500000A1'), 'wb') as f:
        f.write(good['callouts'])

    mkdir('small', [('2024_%s' % eid_of(good[k]), good[k])
                    for k in ('callouts', 'multi_ud', 'second_src', 'no_src',
                              's00_aA800', 's51_aA800', 's40_aA800',
                              'bmc_same_id_a', 'bmc_same_id_b')
                    if k in good] +
          [('2024_%s' % eid_of(good[k]), good[k]) for k in list(good)[:6]])
    mkdir('empty', [])
    mkdir('bad', [('b%02d' % i, good['multi_ud'][:40 + 13 * i]) for i in range(8)] +
          [('r%02d' % i, bytes(rnd.randrange(256) for _ in range(120))) for i in range(4)])
    os.makedirs(os.path.join(dirs, 'bad', 'adir_500000A2'))

    with open(os.path.join(root, 'exclude.txt'), 'w') as f:
        f.write('BD8D1234\nBC8A1234\nsomething else\n')
    with open(os.path.join(root, 'exclude_empty.txt'), 'w') as f:
        pass


# --------------------------------------------------------------------------
# The in-process driver (run once per tree in its own interpreter)
# --------------------------------------------------------------------------

DRIVER = r'''
import sys, os, io, json, random, shutil, hashlib, itertools, types
from collections import OrderedDict
from contextlib import redirect_stdout, redirect_stderr

corpus, work = sys.argv[1], sys.argv[2]
sys.argv = ['peltool.py']

import pel.peltool.peltool as pt
import pel.peltool.src as srcmod
from pel.datastream import DataStream
from pel.peltool.config import Config
from pel.peltool.user_header import UserHeader
from pel.peltool.pel_types import SectionID

print(json.dumps({'module': os.path.realpath(pt.__file__), 'debug': __debug__}))

CASE = [0]
def emit(label, *payload):
    CASE[0] += 1
    print(json.dumps([label, payload], sort_keys=True, default=repr))

def snapshot(d):
    res = []
    for r, ds, fs in os.walk(d):
        ds.sort()
        for f in sorted(fs):
            p = os.path.join(r, f)
            if os.path.islink(p):
                res.append((os.path.relpath(p, d), 'link'))
                continue
            with open(p, 'rb') as fd:
                res.append((os.path.relpath(p, d), hashlib.sha1(fd.read()).hexdigest()))
        for x in ds:
            res.append((os.path.relpath(os.path.join(r, x), d) + '/', ''))
    return sorted(res)

def capture(fn, *a, **k):
    out, err = io.StringIO(), io.StringIO()
    with redirect_stdout(out), redirect_stderr(err):
        try:
            r = fn(*a, **k)
            res = ('ret', r)
        except SystemExit as e:
            res = ('exit', repr(e.code))
        except BaseException as e:
            res = ('exc', type(e).__name__, str(e))
    return res, out.getvalue(), err.getvalue()

REAL_ISDIR = os.path.isdir
def run_main(argv, bmc=False):
    old = sys.argv
    sys.argv = ['peltool.py'] + list(argv)
    if bmc:
        os.path.isdir = lambda p: True if str(p).startswith('/var/lib/phosphor-logging') else REAL_ISDIR(p)
    try:
        return capture(pt.main)
    finally:
        sys.argv = old
        os.path.isdir = REAL_ISDIR

def fresh(name):
    dst = os.path.join(work, 'w')
    if os.path.exists(dst):
        shutil.rmtree(dst)
    shutil.copytree(os.path.join(corpus, 'dirs', name), dst)
    return dst

def mkcfg(**kw):
    c = Config()
    for k, v in kw.items():
        setattr(c, k, v)
    return c

def stream_of(data):
    return DataStream(data, byte_order='big', is_signed=False)

rnd = random.Random(20240921)
single = os.path.join(corpus, 'single')
files = sorted(os.listdir(single))
blobs = {}
for f in files:
    with open(os.path.join(single, f), 'rb') as fd:
        blobs[f] = fd.read()

# ---- getSectionName / processId ---------------------------------------
for sid in [0x5048, 0x5548, 0x5053, 0x5353, 0x4544, 0x5544, 0, 0xFFFF, 0x12345, 0x4C50] + \
        [rnd.randrange(0x10000) for _ in range(40)]:
    emit('getSectionName', sid, capture(pt.getSectionName, sid))
for pid in ['50000001', '0x50000001', '0X50000001', '0xabcdef01', 'abcdef0', '', '0x', '0x0x123456',
            '0X0X50000001', 'x50000001', '5000000100', ' 5000001', '0x5000001', 'ß0000001', '0xß000001']:
    emit('processId', pid, capture(pt.processId, pid))

# ---- buildOutput -------------------------------------------------------
names = ['User Data', 'Primary SRC', 'Unknown', 'Extended User Data', 'A', 'A 0', 'A 1', '']
for i in range(300):
    secs = []
    for _ in range(rnd.choice([0, 1, 2, 3, 5, 8, 13])):
        nm = rnd.choice(names)
        d = OrderedDict()
        d[nm] = {'v': rnd.randrange(100)}
        if rnd.random() < 0.1:
            d['second key'] = 1
        secs.append(d)
    if i % 37 == 36:
        secs.insert(rnd.randrange(len(secs) + 1), OrderedDict())
    if i % 41 == 40:
        secs.append({7: 'int key'}); secs.append({7: 'int key again'})
    if i % 43 == 42:
        secs.append({7: 'single int key'})
    out = OrderedDict()
    if i % 5 == 0:
        out['Private Header'] = 'ph'; out['User Data'] = 'pre-existing'
    res = capture(pt.buildOutput, secs if i % 2 else tuple(secs), out)
    emit('buildOutput', i, res, list(out.items()))

# ---- prettyPrint -------------------------------------------------------
samples = [
    '', '\n', '{}', '{\n}', '    "a": 1,', '"a":1', '"a": {', '    "a": "{"', '  "a\\"b": 2', '  "a\\\\": 3',
    '  "a\\\\\\"": "x": "y":', '"":', ' "":x', 'no key here', '    "k" : 1', '    "very long key name that is longer than the desired space": 1',
    '        "Nested": "va\\"l: ue",', '"a": "b": "c"', '\t"tab": 1', ' " ": " "', '"unterminated: 1', '"a\\": 1', "'single': 1",
    '  "x":\n  "y": [\n    1,\n    2\n  ],\n  "z": {\n    "w": "{}"\n  }',
]
for i in range(120):
    obj = {}
    for _ in range(rnd.randrange(6)):
        key = ''.join(rnd.choice('ab "\\{}:\n\t\u00e9,') for _ in range(rnd.randrange(12)))
        val = rnd.choice([1, None, True, 'str', 'q"uo:te', {'in{ner': [1, {'x": y': '}'}]}, [], {}, [1, 'a": b'], 1.5])
        obj[key] = val
    samples.append(json.dumps(obj, indent=rnd.choice([4, 4, 2, 1, 0, None])))
    samples.append(json.dumps(obj, indent=4, ensure_ascii=False))
for i, s in enumerate(samples):
    emit('prettyPrint', i, capture(pt.prettyPrint, s))
    for space in (29, 0, -5, 3, 200):
        emit('prettyPrint', i, space, capture(pt.prettyPrint, s, space))
    emit('prettyPrint-kw', i, capture(pt.prettyPrint, s, desiredSpace=29))
emit('prettyPrint-bad', capture(pt.prettyPrint, '  "a": 1', 'x'))
emit('prettyPrint-bad', capture(pt.prettyPrint, 'nokey', 'x'))
emit('prettyPrint-bad', capture(pt.prettyPrint, None))
emit('KEY_PREFIX_RE', pt.KEY_PREFIX_RE.pattern, pt.KEY_PREFIX_RE.flags)

# ---- considerPEL / considerPELIfSeverityMatches ------------------------
def mkuh(sev, action):
    uh = UserHeader(None, 0x5548, 24, 1, 0, 0x2000, 'O')
    uh.eventSeverity = sev
    uh.actionFlags = action
    return uh
uhs = [(s, a) for s in (0x00, 0x10, 0x20, 0x40, 0x44, 0x51, 0x70) for a in (0, 0x8000, 0x4000, 0x2000, 0x6000, 0xA000, 0xE000)]
flagnames = ['every_pel', 'critSysTerm', 'serviceable', 'non_serviceable', 'hidden', 'only']
sevlists = [[], [0], [1], [4, 5], [2, 7, 0]]
idsets = [{}, {'plid': '5'}, {'src': 'BD'}, {'bmcID': '1'}, {'pelID': '5'}]
rows = []
for bits in range(64):
    for sl in sevlists:
        for ids in idsets:
            kw = {n: bool(bits >> i & 1) for i, n in enumerate(flagnames)}
            cfg = mkcfg(severities=list(sl), **kw, **ids)
            row = []
            for s, a in uhs:
                r = capture(pt.considerPEL, mkuh(s, a), cfg)
                m = capture(pt.considerPELIfSeverityMatches, mkuh(s, a), cfg)
                row.append((r[0], m[0]))
                assert r[1:] == ('', '') and m[1:] == ('', ''), (r, m)
            rows.append(row)
            if len(rows) == 25:
                emit('considerPEL', bits, sl, ids, rows); rows = []
emit('considerPEL', 'rest', rows)
emit('considerPEL-nonbool', capture(pt.considerPEL, mkuh(0x40, 0xA000), mkcfg(serviceable=1, only='yes', severities=(4,))))
emit('considerPEL-nonbool', capture(pt.considerPEL, mkuh(0x40, 0x4000), mkcfg(hidden=1, only='yes', severities=(5,))))
emit('considerPEL-sevNone', capture(pt.considerPEL, mkuh(0x40, 0x4000), mkcfg(severities=None)))
emit('considerPELIfSeverityMatches-bad', capture(pt.considerPELIfSeverityMatches, mkuh(0x40, 0x4000), mkcfg(severities=None)))
emit('considerPELIfSeverityMatches-float', capture(pt.considerPELIfSeverityMatches, mkuh(0x40, 0x4000), mkcfg(severities=[4.0])))

# ---- parseHeader / generate* / sectionFun -----------------------------
def hdr_case(label, fn, data, *extra):
    st = stream_of(data)
    out = OrderedDict()
    res = capture(fn, st, *[out if e is OUT else e for e in extra])
    def clean(r):
        if r[0] == 'ret' and isinstance(r[1], tuple) and len(r[1]) == 2 and not isinstance(r[1][1], (str, int, type(None))):
            obj = r[1][1]
            return ('ret', (r[1][0], type(obj).__name__,
                            sorted((k, repr(v)) for k, v in vars(obj).items() if k != 'stream')))
        return r
    emit(label, clean(res[0]), res[1], res[2], st.index, list(out.items()))
OUT = object()
for f in files:
    d = blobs[f]
    for cut in (None, 0, 1, 3, 4, 5, 6, 7, 8, 9, 30):
        dd = d if cut is None else d[:cut]
        st = stream_of(dd)
        emit('parseHeader', f, cut, capture(pt.parseHeader, st), st.index)
    hdr_case('generatePH', pt.generatePH, d, OUT)
    hdr_case('generateUH', lambda st, o: pt.generateUH(st, 'O', o), d[48:], OUT)
    hdr_case('generateUH-H', lambda st, o: pt.generateUH(st, 'H', o), d[48:], OUT)

secids = [0x5053, 0x5353, 0x4548, 0x4D54, 0x4544, 0x5544, 0x4C50, 0x4448, 0x5048, 0x5548, 0, 0x5A5A, 0x5357]
bodies = []
for f in files:
    if f.startswith('good_'):
        d = blobs[f][72:]
        pos = 0
        while pos + 8 <= len(d):
            ln = int.from_bytes(d[pos+2:pos+4], 'big')
            if ln < 8:
                break
            bodies.append(d[pos:pos+ln]); pos += ln
seen = set(); ub = []
for b in bodies:
    if b not in seen:
        seen.add(b); ub.append(b)
bodies = ub
emit('n-bodies', len(bodies))
genmap = {
    'generateSRC': lambda st, o, h, cr, cfg: pt.generateSRC(st, o, *h, cr, cfg),
    'generateEH': lambda st, o, h, cr, cfg: pt.generateEH(st, o, *h, cr),
    'generateMT': lambda st, o, h, cr, cfg: pt.generateMT(st, o, *h, cr),
    'generateED': lambda st, o, h, cr, cfg: pt.generateED(st, o, *h, cfg),
    'generateUD': lambda st, o, h, cr, cfg: pt.generateUD(st, o, *h, cr, cfg),
    'generateIP': lambda st, o, h, cr, cfg: pt.generateIP(st, o, *h, cr),
    'generateDefault': lambda st, o, h, cr, cfg: pt.generateDefault(st, o, *h),
}
for bi, b in enumerate(bodies):
    variants = [b, b[:len(b)//2], b[:9], b + b'\x00' * 4]
    mut = bytearray(b)
    for _ in range(3):
        mut[rnd.randrange(8, len(mut)) if len(mut) > 8 else 0] = rnd.randrange(256)
    variants.append(bytes(mut))
    for vi, v in enumerate(variants):
        for plugins in (True, False):
            cfg = mkcfg(allow_plugins=plugins)
            for creator in ('O', 'H') if vi == 0 else ('O',):
                # via sectionFun with its own id and with every other id
                ids = secids if (vi == 0 and plugins and bi % 4 == 0) else [int.from_bytes(v[0:2], 'big')]
                for sid in ids:
                    st = stream_of(v)
                    h = capture(pt.parseHeader, st)
                    if h[0][0] != 'ret':
                        emit('sectionFun-hdr', bi, vi, h, st.index); continue
                    hh = list(h[0][1]); hh[0] = sid
                    out = OrderedDict()
                    res = capture(pt.sectionFun, st, out, *hh, creator, cfg)
                    emit('sectionFun', bi, vi, plugins, creator, sid, res, st.index, list(out.items()))
            if vi in (0, 4) and plugins:
                for gname, g in genmap.items():
                    st = stream_of(v)
                    h = pt.parseHeader(st)
                    out = OrderedDict()
                    res = capture(g, st, out, h, 'O', cfg)
                    r0 = res[0]
                    if r0[0] == 'ret':
                        r0 = ('ret', r0[1][0], type(r0[1][1]).__name__)
                    emit(gname, bi, vi, r0, res[1], res[2], st.index, list(out.items()))

# ---- parsePEL / parsePELSummary on every file ------------------------
cfgs = [
    {}, {'every_pel': True}, {'every_pel': True, 'allow_plugins': False},
    {'hidden': True, 'only': True}, {'severities': [0, 1], 'serviceable': True},
    {'non_serviceable': True, 'only': True, 'severities': [4]}, {'critSysTerm': True, 'only': True},
    {'every_pel': True, 'hex': True},
]
for rep in range(2):   # repeated decodes in one process
    for f in files:
        d = blobs[f]
        for ci, kw in enumerate(cfgs):
            if rep and ci not in (0, 1):
                continue
            for eoe in (False, True):
                st = stream_of(d)
                res = capture(pt.parsePEL, st, mkcfg(**kw), eoe)
                emit('parsePEL', rep, f, ci, eoe, res, st.index)
            st = stream_of(d)
            res = capture(pt.parsePELSummary, st, mkcfg(**kw))
            emit('parsePELSummary', rep, f, ci, res, st.index)
            p = os.path.join(single, f)
            emit('extractAndSummarizePEL', rep, f, ci, capture(pt.extractAndSummarizePEL, p, mkcfg(**kw)))
            if ci in (0, 1, 7):
                emit('parseAndPrintPELFile', rep, f, ci, capture(pt.parseAndPrintPELFile, p, mkcfg(**kw), False))
                emit('parseAndPrintPELFile-x', rep, f, ci, capture(pt.parseAndPrintPELFile, p, mkcfg(**kw), True))

# with a faked message registry so that "Error Details" shows up
saved = srcmod.registry.pels
srcmod.registry.pels = [
    {'SRC': {'ReasonCode': '0x1234', 'Words6To9': {'6': {'Description': 'six', 'AdditionalDataPropSource': 'SIX'}, '7': {'AdditionalDataPropSource': 'SEVEN'}}},
     'Documentation': {'Message': 'Message %1 and %2', 'MessageArgSources': ['SRCWord6', 'SRCWord9']}},
    {'SRC': {'ReasonCode': '0x7777', 'Type': 'BD'}, 'Documentation': {'Message': 'plain message'}},
    {'SRC': {'ReasonCode': '0x0001', 'Type': 'BC'}, 'Documentation': {'Message': ''}},
    {'SRC': {'Type': '11'}, 'Documentation': {'Message': 'no reason'}},
    {'SRC': {'ReasonCode': '0x1234', 'Type': '11'}, 'Documentation': {'Message': 'power %1 {oops}', 'MessageArgSources': ['SRCWord3']}},
]
for f in files:
    if f.startswith('good_') or f.startswith('corrupt_0'):
        st = stream_of(blobs[f])
        emit('parsePEL-reg', f, capture(pt.parsePEL, st, mkcfg(every_pel=True), False), st.index)
        st = stream_of(blobs[f])
        emit('parsePELSummary-reg', f, capture(pt.parsePELSummary, st, mkcfg(every_pel=True)), st.index)
d = fresh('small')
for argv in (['-p', d, '-l'], ['-p', d, '-l', '-E', '-r'], ['-p', d, '--src', '1234'], ['-p', d, '--plid', '500000A'],
             ['-p', d, '-a', '-E'], ['-p', d, '-n', '-E']):
    emit('main-reg', argv[2:], run_main(argv))
srcmod.registry.pels = saved

# ---- small helpers with files ----------------------------------------
for name in ('mixed', 'small', 'empty', 'bad', 'nonexistent'):
    p = os.path.join(corpus, 'dirs', name)
    for ext in (None, '', '.pel', '.txt', 'pel', '.'):
        for rev in (False, True):
            emit('getFileList', name, ext, rev, capture(pt.getFileList, p, ext, rev))
    emit('getFileList-default', name, capture(pt.getFileList, p, None))
emit('getFileList-file', capture(pt.getFileList, os.path.join(corpus, 'exclude.txt'), None))
for f in files[::7]:
    emit('printPELInHexFormat', f, capture(pt.printPELInHexFormat, blobs[f]))
emit('printPELInHexFormat-mv', capture(pt.printPELInHexFormat, memoryview(b'abc' * 11)))

# parseAndWriteOutput directly
for delete in (False, True):
    for kw in ({}, {'every_pel': True}):
        d = fresh('mixed')
        outd = os.path.join(work, 'o')
        if os.path.exists(outd):
            shutil.rmtree(outd)
        os.makedirs(outd)
        rs = []
        for f in sorted(os.listdir(d)):
            if os.path.isfile(os.path.join(d, f)):
                rs.append((f, capture(pt.parseAndWriteOutput, os.path.join(d, f), outd, mkcfg(**kw), delete)))
        rs.append(capture(pt.parseAndWriteOutput, os.path.join(d, 'nope'), outd, mkcfg(**kw), delete))
        rs.append(capture(pt.parseAndWriteOutput, os.path.join(d, sorted(os.listdir(d))[0]), os.path.join(outd, 'missing'), mkcfg(every_pel=True), delete))
        emit('parseAndWriteOutput', delete, kw, rs, snapshot(d), snapshot(outd))

# delete helpers directly
for pid in ('500000A1', '0x500000a2', '500000', '50000', 'FFFFFFFF', '500000A', 'ABCDEF01', '0xabcdef01'):
    for name in ('mixed', 'bad', 'empty'):
        d = fresh(name)
        emit('deletePELFromPELId', pid, name, capture(pt.deletePELFromPELId, d, pid), snapshot(d))
        d = fresh(name)
        emit('parsePelFromID', pid, name, capture(pt.parsePelFromID, d, mkcfg(pelID=pid)), snapshot(d))
        emit('parsePelFromID-hex', pid, name, capture(pt.parsePelFromID, d, mkcfg(pelID=pid, hex=True, every_pel=True)))
emit('deletePELFromPELId-nodir', capture(pt.deletePELFromPELId, os.path.join(work, 'nodir'), '500000A1'))
for name in ('mixed', 'bad', 'empty'):
    d = fresh(name)
    emit('deleteAllPELs', name, capture(pt.deleteAllPELs, d), snapshot(d))
emit('deleteAllPELs-nodir', capture(pt.deleteAllPELs, os.path.join(work, 'nodir')))
d = fresh('mixed')
os.symlink(os.path.join(d, 'does-not-exist'), os.path.join(d, 'dangling_500000A1'))
os.symlink(os.path.join(d, 'archive'), os.path.join(d, 'dirlink'))
emit('deleteAllPELs-symlinks', capture(pt.deleteAllPELs, d), snapshot(d))
for bid in ('161', '4242', '1', '99999', '', '0', 'abc'):
    for name in ('mixed', 'small', 'bad', 'empty'):
        d = fresh(name)
        for kw in ({}, {'every_pel': True}, {'hex': True}, {'hidden': True, 'only': True}):
            emit('parsePelFromBmcID', bid, name, kw, capture(pt.parsePelFromBmcID, d, mkcfg(bmcID=bid, **kw)))
for plid in ('500000A1', '0x500000a1', '5000000', '50000001', '5000', 'ZZZZZZZZ'):
    for name in ('mixed', 'small', 'bad', 'empty'):
        d = fresh(name)
        for kw in ({}, {'every_pel': True}, {'hex': True}, {'rev': True, 'extension': '.pel'}):
            emit('parsePelFromPLID', plid, name, kw, capture(pt.parsePelFromPLID, d, mkcfg(plid=plid, **kw)))
excl = os.path.join(corpus, 'exclude.txt')
for kw in ({'src': 'BD8D'}, {'src': 'BD8D1234'}, {'src': 'X' * 32}, {'src': 'X' * 33}, {'src': ''}, {'src': None},
           {'srcExcludeFile': excl}, {'srcExcludeFile': os.path.join(corpus, 'exclude_empty.txt')},
           {'srcExcludeFile': os.path.join(corpus, 'missing.txt')}, {'src': 'BD', 'srcExcludeFile': excl},
           {'src': 'B', 'srcExcludeFile': excl, 'hex': True}, {'src': 'BD8D', 'hex': True}, {'src': 'BD', 'every_pel': True, 'rev': True}):
    for name in ('mixed', 'small', 'bad', 'empty'):
        d = fresh(name)
        emit('parsePelFromSRCID', kw, name, capture(pt.parsePelFromSRCID, d, mkcfg(**kw)))
for name in ('mixed', 'small', 'bad', 'empty', 'nonexistent'):
    d = os.path.join(corpus, 'dirs', name)
    for kw in ({}, {'every_pel': True}, {'hex': True}, {'every_pel': True, 'hex': True}, {'rev': True}, {'extension': '.pel', 'every_pel': True},
               {'hidden': True, 'only': True}, {'severities': [0, 1]}, {'allow_plugins': False, 'every_pel': True}):
        emit('listOption', name, kw, capture(pt.listOption, d, mkcfg(**kw)))
        emit('extractAllPELsData', name, kw, capture(pt.extractAllPELsData, d, mkcfg(**kw)))
        emit('printPELCount', name, kw, capture(pt.printPELCount, d, mkcfg(**kw)))

# ---- main(): -f on every file ----------------------------------------
fopts = [[], ['-x'], ['-P'], ['-E'], ['-H', '-O'], ['-S', 'Informational', 'Recovered'], ['-N', '-O', '-S', 'Unrecoverable'],
         ['-t', '-O'], ['-s'], ['-E', '-x', '-r', '-e', '.pel'], ['-l'], ['-j']]
for f in files:
    p = os.path.join(single, f)
    for oi, o in enumerate(fopts):
        if oi > 3 and not (f.startswith('good_') or f.endswith('0')):
            continue
        emit('main-f', f, o, run_main(['-f', p] + o))
    emit('main-f-bmc', f, run_main(['-f', p], bmc=True))
# -f with --clean
for f in files:
    for o in ([], ['-E'], ['-x', '-E']):
        d = os.path.join(work, 'w')
        if os.path.exists(d):
            shutil.rmtree(d)
        os.makedirs(d)
        p = os.path.join(d, f)
        shutil.copy(os.path.join(single, f), p)
        emit('main-f-clean', f, o, run_main(['-f', p, '-c'] + o), snapshot(d))
emit('main-f-missing', run_main(['-f', os.path.join(work, 'no-such-file')]))
emit('main-f-missing-c', run_main(['-f', os.path.join(work, 'no-such-file'), '-c']))
emit('main-f-dir', run_main(['-f', work]))

# ---- main(): argument handling ---------------------------------------
for argv in ([], ['-l'], ['-h'], ['--help'], ['-p'], ['-p', os.path.join(work, 'nodir'), '-l'], ['-p', os.path.join(corpus, 'exclude.txt'), '-l'],
             ['-A'], ['-S'], ['-S', 'Bogus'], ['-l', '-S', 'Critical', 'Critical'], ['--bogus'], ['-p', ''], ['-i', '50000001'],
             ['-f', ''], ['-f'], ['-o', work], ['-j'], ['-D'], ['-d', '50000001']):
    emit('main-args', argv, run_main(argv))
    emit('main-args-bmc', argv, run_main(argv, bmc=True))
for argv in (['-l'], ['-a'], ['-n'], ['-A', '-l'], ['-A', '-a', '-x'], ['-i', '50000001'], ['--bmc-id', '1'], ['--plid', '50000001'],
             ['--src', 'BD'], ['-D'], ['-d', '50000001'], ['-j'], ['-j', '-o', work], ['-p', work, '-l'], ['-A', '-j', '-o', os.path.join(work, 'nodir')],
             ['--src-exclude', excl], ['--src-exclude', os.path.join(work, 'nofile')]):
    emit('main-bmc', argv, run_main(argv, bmc=True))

# ---- main(): directory modes ----------------------------------------
sel = [[], ['-E'], ['-s'], ['-N'], ['-H'], ['-H', '-O'], ['-t'], ['-t', '-O'], ['-S', 'Informational'], ['-O', '-S', 'Unrecoverable', 'Critical'],
       ['-s', '-O', '-S', 'Predictive'], ['-N', '-O', '-S', 'Recovered', 'Informational'], ['-O'], ['-s', '-N', '-H'], ['-E', '-O', '-H']]
fmt = [[], ['-x'], ['-r'], ['-e', '.pel'], ['-e', '.txt', '-r'], ['-P'], ['-x', '-r', '-e', '']]
for name in ('mixed', 'small', 'bad', 'empty'):
    d = os.path.join(corpus, 'dirs', name)
    for mode in (['-l'], ['-a'], ['-n']):
        for s in sel:
            for fm in fmt:
                if s and fm and (len(s) + len(fm)) % 2 and name != 'small':
                    continue
                emit('main-dir', name, mode, s, fm, run_main(['-p', d] + mode + s + fm))
    # several modes at once: priority order
    for combo in (['-l', '-a', '-n'], ['-a', '-n'], ['-n', '-D'], ['-l', '-d', '500000A1'], ['-i', '500000A1', '-l'],
                  ['--bmc-id', '161', '--plid', '500000A1'], ['--plid', '500000A1', '--src', 'BD'], ['--src', 'BD', '--src-exclude', excl],
                  ['--src-exclude', excl, '-l'], ['-i', '500000A1', '--bmc-id', '1'], ['-f', os.path.join(single, 'good_callouts'), '-l']):
        dd = fresh(name)
        emit('main-combo', name, combo, run_main(['-p', dd] + combo), snapshot(dd))
    for pid in ('500000A1', '0x500000A2', '0X500000a3', 'abcdef01', '500000', '5000000000', '50000001', 'FFFFFFFF', '500000B2', '500000B3'):
        for o in ([], ['-x'], ['-E'], ['-H', '-O']):
            emit('main-id', name, pid, o, run_main(['-p', d, '-i', pid] + o))
        dd = fresh(name)
        emit('main-delete', name, pid, run_main(['-p', dd, '-d', pid]), snapshot(dd))
        emit('main-delete-again', name, pid, run_main(['-p', dd, '-d', pid]), snapshot(dd))
    for bid in ('161', '4242', '1', '2', '99999', '0', 'x', '178', '179'):
        for o in ([], ['-x'], ['-E'], ['-H', '-O']):
            emit('main-bmcid', name, bid, o, run_main(['-p', d, '--bmc-id', bid] + o))
    for plid in ('500000A1', '0x500000a1', '50000001', '50000002', '5000', 'FFFFFFFF', 'ABCDEF01'):
        for o in ([], ['-x'], ['-E'], ['-E', '-r'], ['-E', '-e', '.pel']):
            emit('main-plid', name, plid, o, run_main(['-p', d, '--plid', plid] + o))
    for src in ('BD', 'BD8D1234', 'bd8d', 'BC8A', 'B', 'Z' * 32, 'Z' * 33, ' '):
        for o in ([], ['-x'], ['-E'], ['-E', '-r']):
            emit('main-src', name, src, o, run_main(['-p', d, '--src', src] + o))
    for ex in (excl, os.path.join(corpus, 'exclude_empty.txt'), os.path.join(corpus, 'nofile'), corpus):
        for o in ([], ['-x'], ['-E'], ['-E', '-r']):
            emit('main-src-exclude', name, os.path.basename(ex), o, run_main(['-p', d, '--src-exclude', ex] + o))
    dd = fresh(name)
    emit('main-delete-all', name, run_main(['-p', dd, '-D']), snapshot(dd))
    emit('main-delete-all-again', name, run_main(['-p', dd, '-D', '-l']), snapshot(dd))
    # JSON mode
    for o in ([], ['-E'], ['-c'], ['-E', '-c'], ['-E', '-e', '.pel'], ['-E', '-c', '-e', '.txt'], ['-E', '-x'], ['-H', '-O', '-c'], ['-E', '-P']):
        dd = fresh(name)
        emit('main-json', name, o, run_main(['-p', dd, '-j'] + o), snapshot(dd))
        emit('main-json-again', name, o, run_main(['-p', dd, '-j'] + o), snapshot(dd))
        dd = fresh(name)
        outd = os.path.join(work, 'o')
        if os.path.exists(outd):
            shutil.rmtree(outd)
        os.makedirs(outd)
        emit('main-json-o', name, o, run_main(['-p', dd, '-j', '-o', outd] + o), snapshot(dd), snapshot(outd))
        emit('main-json-o-missing', name, o, run_main(['-p', dd, '-j', '-o', os.path.join(outd, 'nodir')] + o), snapshot(dd))
        emit('main-json-o-file', name, o, run_main(['-p', dd, '-j', '-o', excl] + o), snapshot(dd))

emit('done', CASE[0])
'''


# --------------------------------------------------------------------------
# Orchestration
# --------------------------------------------------------------------------

def run_driver(root, driver, corpus, work, optimize):
    env = dict(os.environ)
    env['PYTHONPATH'] = os.path.join(root, 'modules')
    env['PYTHONDONTWRITEBYTECODE'] = '1'
    env['PYTHONHASHSEED'] = '0'
    if os.path.exists(work):
        shutil.rmtree(work)
    os.makedirs(work)
    cmd = [PY] + (['-O'] if optimize else []) + [driver, corpus, work]
    p = subprocess.run(cmd, env=env, cwd=work, stdout=subprocess.PIPE,
                       stderr=subprocess.PIPE)
    lines = p.stdout.decode('utf-8', 'replace').splitlines()
    if p.returncode != 0 or not lines or not lines[-1].startswith('["done"'):
        sys.stderr.write(p.stderr.decode('utf-8', 'replace')[-4000:])
        raise SystemExit('driver failed for %s (rc=%s, %d lines)' %
                         (root, p.returncode, len(lines)))
    head = json.loads(lines[0])
    want = os.path.realpath(os.path.join(root, 'modules', 'pel', 'peltool',
                                         'peltool.py'))
    if head['module'] != want:
        raise SystemExit('driver imported %s instead of %s' %
                         (head['module'], want))
    if head['debug'] == optimize:
        raise SystemExit('unexpected __debug__')
    # compiler warnings of plugin modules mention the path of the tree
    lines = [l.replace(os.path.realpath(root), '<ROOT>').replace(root, '<ROOT>')
             for l in lines[1:]]
    return lines, normalise_stderr(p.stderr.decode('utf-8', 'replace'), root)


def normalise_stderr(text, root):
    text = text.replace(os.path.realpath(root), '<ROOT>').replace(root, '<ROOT>')
    out = []
    in_tb = False
    for line in text.splitlines():
        if line.startswith('Traceback (most recent call last)'):
            in_tb = True
            out.append(line)
            continue
        if in_tb and line.startswith(' '):
            continue
        in_tb = False
        out.append(line)
    return '\n'.join(out)


def snapshot(d):
    res = []
    for r, ds, fs in os.walk(d):
        ds.sort()
        for f in sorted(fs):
            p = os.path.join(r, f)
            with open(p, 'rb') as fd:
                res.append((os.path.relpath(p, d),
                            hashlib.sha1(fd.read()).hexdigest()))
    return sorted(res)


def cli_cases(corpus, work):
    single = os.path.join(corpus, 'single')
    excl = os.path.join(corpus, 'exclude.txt')
    cases = []
    for f in ('good_callouts', 'good_multi_ud', 'good_bad_ph_id',
              'good_bad_uh_id', 'good_count_too_big', 'trunc_0060',
              'random_001', 'empty', 'good_s00_aA800', 'good_hostboot'):
        p = os.path.join(single, f)
        cases.append((None, ['-f', p]))
        cases.append((None, ['-f', p, '-x', '-E']))
    cases.append((None, ['-f', os.path.join(single, 'nope')]))
    for extra in ([], ['-h'], ['-l'], ['-p', os.path.join(work, 'nodir'), '-l'],
                  ['-S', 'Nope'], ['-p']):
        cases.append((None, extra))
    for name in ('mixed', 'small', 'bad', 'empty'):
        for argv in (['-l'], ['-l', '-E', '-r'], ['-l', '-x'], ['-a'],
                     ['-a', '-E', '-x'], ['-a', '-H', '-O'], ['-n'],
                     ['-n', '-O', '-S', 'Unrecoverable'],
                     ['-i', '500000A1'], ['-i', '12345'],
                     ['--bmc-id', '4242'], ['--bmc-id', '4242', '-x'],
                     ['--plid', '500000A1'], ['--plid', '77'],
                     ['--src', 'BD8D'], ['--src', 'Q' * 40],
                     ['--src-exclude', excl],
                     ['--src-exclude', os.path.join(work, 'nofile')],
                     ['-d', '500000A2'], ['-d', '1'], ['-D'],
                     ['-j'], ['-j', '-c', '-E'], ['-j', '-o', '@OUT@', '-E'],
                     ['-j', '-o', os.path.join(work, 'nodir')], []):
            cases.append((name, argv))
    return cases


def run_cli(root, corpus, work, name, argv, optimize):
    env = dict(os.environ)
    env['PYTHONPATH'] = os.path.join(root, 'modules')
    env['PYTHONDONTWRITEBYTECODE'] = '1'
    env['PYTHONHASHSEED'] = '0'
    env['COLUMNS'] = '80'
    if os.path.exists(work):
        shutil.rmtree(work)
    os.makedirs(work)
    outd = os.path.join(work, 'out')
    os.makedirs(outd)
    args = []
    d = None
    if name is not None:
        d = os.path.join(work, 'w')
        shutil.copytree(os.path.join(corpus, 'dirs', name), d)
        args = ['-p', d]
    args += [outd if a == '@OUT@' else a for a in argv]
    tool = os.path.join(root, 'modules', 'pel', 'peltool', 'peltool.py')
    cmd = [PY] + (['-O'] if optimize else []) + [tool] + args
    p = subprocess.run(cmd, env=env, cwd=work, stdout=subprocess.PIPE,
                       stderr=subprocess.PIPE, stdin=subprocess.DEVNULL)
    return (p.returncode, p.stdout,
            normalise_stderr(p.stderr.decode('utf-8', 'replace'), root),
            snapshot(d) if d else None, snapshot(outd))


def main():
    if len(sys.argv) != 3:
        raise SystemExit(__doc__)
    pristine, patched = (os.path.abspath(a) for a in sys.argv[1:3])
    here = os.path.dirname(os.path.dirname(os.path.abspath(__file__)))
    tmp = tempfile.mkdtemp(prefix='diffcheck_R21_',
                           dir=here if os.access(here, os.W_OK) else None)
    cases = 0
    diffs = []
    try:
        corpus = os.path.join(tmp, 'corpus')
        work = os.path.join(tmp, 'work')
        os.makedirs(corpus)
        build_corpus(corpus, random.Random(0xC0FFEE))
        driver = os.path.join(tmp, 'driver.py')
        with open(driver, 'w') as f:
            f.write(DRIVER)

        for optimize in (False, True):
            a, aerr = run_driver(pristine, driver, corpus, work, optimize)
            b, berr = run_driver(patched, driver, corpus, work, optimize)
            if aerr != berr:
                diffs.append(('driver-stderr', optimize, aerr[-500:], berr[-500:]))
            if len(a) != len(b):
                diffs.append(('driver-case-count', optimize, len(a), len(b)))
            for i, (x, y) in enumerate(zip(a, b)):
                cases += 1
                if x != y:
                    diffs.append(('driver', optimize, i, x[:1500], y[:1500]))

        for idx, (name, argv) in enumerate(cli_cases(corpus, work)):
            for optimize in ((False, True) if idx % 4 == 0 else (False,)):
                ra = run_cli(pristine, corpus, work, name, argv, optimize)
                rb = run_cli(patched, corpus, work, name, argv, optimize)
                cases += 1
                if ra != rb:
                    diffs.append(('cli', name, argv, optimize, ra, rb))
    finally:
        shutil.rmtree(tmp, ignore_errors=True)

    if diffs:
        for d in diffs[:20]:
            print('DIFFERENCE:', d)
        print('DIFFERENT (%d of %d cases differ)' % (len(diffs), cases))
        sys.exit(1)
    print('IDENTICAL (%d cases)' % cases)
    sys.exit(0)


if __name__ == '__main__':
    main()
