#!/usr/bin/env python3
"""
Differential check for patch 1 (re-implementation of pel.hexdump.hexdump and
pel.hexdump.parse).

usage: diffcheck.py <pristine_root> <patched_root>

Runs an in-process driver (once with plain python, once with python -O) and
the peltool CLI against both source trees and compares everything that is
observable: stdout, (normalised) stderr, exit status and created files.
"""
import os
import random
import shutil
import struct
import subprocess
import sys
import tempfile

PY = sys.executable
HERE = os.path.dirname(os.path.abspath(__file__))

DRIVER = r'''
import random, sys
import pel.hexdump as H
from pel.hexdump import hexdump, parse, DEFAULT_LINE_FORMAT

n = 0
def emit(tag, fn):
    global n
    n += 1
    try:
        res = fn()
        if isinstance(res, (bytearray, bytes)):
            res = (type(res).__name__, bytes(res).hex())
        print("%d\t%s\tOK\t%r" % (n, tag, res))
    except BaseException as e:
        print("%d\t%s\tEXC\t%s\t%s" % (n, tag, type(e).__name__, e))

rnd = random.Random(20240611)

def rbytes(k, printable_bias=False):
    if printable_bias:
        return bytes(rnd.choice(b'ABCxyz 09~\x7f\x1f\x20\x00\xff') for _ in range(k))
    return bytes(rnd.getrandbits(8) for _ in range(k))

# ---------------------------------------------------------------- hexdump
emit("dflt-empty", lambda: hexdump(memoryview(b'')))
emit("all256", lambda: hexdump(memoryview(bytes(range(256)))))
emit("all256-bytes", lambda: hexdump(bytes(range(256))))
emit("all256-ba", lambda: hexdump(bytearray(range(256)), 32, 8))

BPL = [1, 2, 3, 4, 5, 7, 8, 15, 16, 17, 32, 255, 256]
BPC = [1, 2, 3, 4, 5, 8, 16, 17, 256]
for bpl in BPL:
    for bpc in BPC:
        for size in (0, 1, bpl - 1, bpl, bpl + 1, 2 * bpl + 3):
            if size < 0 or size > 600:
                continue
            d = rbytes(size, printable_bias=(bpl + bpc) % 2 == 0)
            kind = rnd.choice(("mv", "bytes", "ba"))
            obj = {"mv": memoryview(d), "bytes": d, "ba": bytearray(d)}[kind]
            emit("hd-%s-%d-%d-%d" % (kind, bpl, bpc, size),
                 lambda: hexdump(obj, bpl, bpc))
            emit("hd-kw-%d-%d-%d" % (bpl, bpc, size),
                 lambda: hexdump(obj, bytes_per_chunk=bpc, bytes_per_line=bpl))

# invalid / odd geometry (asserts in normal mode, something else with -O)
for bpl in (0, -1, -16, 257, 1000, 16.0, None, "16", True):
    for bpc in (4, 0, -4, 257, 2.0, None):
        for d in (b'', b'A', b'0123456789abcdefXYZ'):
            emit("hd-odd-%r-%r-%d" % (bpl, bpc, len(d)),
                 lambda: hexdump(memoryview(d), bpl, bpc))
for bpc in (0, -1, -2, -4, 257, 300, 2.0, 0.5, None, "4", True):
    for bpl in (16, 8, 1, 3):
        for d in (b'', b'A', b'0123456789abcdefXYZ', bytes(range(40))):
            emit("hd-oddc-%r-%r-%d" % (bpl, bpc, len(d)),
                 lambda: hexdump(memoryview(d), bpl, bpc))

# odd containers
for fmt in ('b', 'B', 'c', '?', 'H', 'h', 'I', 'f', 'd', 'q'):
    raw = bytes([0, 1, 0x41, 0x7e, 0x7f, 0x80, 0xff, 0x20] * 4)
    emit("hd-cast-" + fmt, lambda: hexdump(memoryview(raw).cast(fmt)))
    emit("hd-cast8-" + fmt, lambda: hexdump(memoryview(raw).cast(fmt), 8, 2))
emit("hd-list", lambda: hexdump([1, 2, 0x41, 255, 300, 70000, 0x20, 0x7e, 0x7f]))
emit("hd-list-neg", lambda: hexdump([1, -1, 65]))
emit("hd-list-str", lambda: hexdump([65, 'a', 66]))
emit("hd-list-float", lambda: hexdump([65, 1.5, 66]))
emit("hd-str", lambda: hexdump("hello"))
emit("hd-none", lambda: hexdump(None))
emit("hd-int", lambda: hexdump(5))
emit("hd-tuple", lambda: hexdump((65, 66, 67, 0, 200), 2, 1))
emit("hd-range", lambda: hexdump(range(30, 140), 16, 4))
for size in range(0, 70):
    d = rbytes(size)
    emit("hd-size-%d" % size, lambda: hexdump(memoryview(d)))
big = rbytes(5000)
emit("hd-big", lambda: hexdump(memoryview(big)))
emit("hd-big-32-8", lambda: hexdump(memoryview(big), 32, 8))
# repeated calls must not influence each other
emit("hd-repeat", lambda: [hexdump(memoryview(big[:40]), 7, 3) for _ in range(3)])

# ------------------------------------------------------------------ parse
FORMATS = [
    DEFAULT_LINE_FORMAT,
    'AAAA:  DDDDDDDD DDDDDDDD DDDDDDDD DDDDDDDD  <CCCCCCCCCCCCCCCC>',
    'DD DD DD DD DD DD DD DD DD DD DD DD DD DD DD DD CCCCCCCCCCCCCCCC',
    '[AAAA] DDDD DDDD DDDD DDDD',
    'AAAAAAAA     DDDD  DDDD  DDDD  DDDD     CCCCCCCC',
    'D-D', 'D D', 'DCD', 'DAD', 'DDD', 'D', '', 'AAAA', 'CCCC', 'DD|DD',
    'xDDx', 'DDDDDDDD', 'CDDC', 'ADDA', 'D  D', 'DD-D-D', 'A:DCCD',
    '|DD|DD|', 'DdD', 'aDD', 'D\nD', 'DD\n',
]

def render(data, fmt, addr):
    """Fill a line format with data the way a dump tool would."""
    out = []
    digits = data.hex().upper()
    if rnd.random() < 0.3:
        digits = digits.lower()
    a = "%0*X" % (fmt.count('A'), addr)
    ai = di = 0
    for ch in fmt:
        if ch == 'A':
            out.append(a[ai] if ai < len(a) else '0'); ai += 1
        elif ch == 'D':
            if di < len(digits):
                out.append(digits[di]); di += 1
            else:
                out.append(' ')
        elif ch == 'C':
            out.append(rnd.choice('.aZ 9~'))
        else:
            out.append(ch)
    return ''.join(out)

JUNK = "0123456789abcdefABCDEFgGzZ xX:<>[]|.-\n\t\r０é"

def mutate(line):
    k = rnd.randrange(6)
    if not line:
        return rnd.choice(JUNK)
    p = rnd.randrange(len(line))
    if k == 0:
        return line[:p]
    if k == 1:
        return line[:p] + rnd.choice(JUNK) + line[p + 1:]
    if k == 2:
        return line[:p] + rnd.choice(JUNK) + line[p:]
    if k == 3:
        return line[:p] + line[p + 1:]
    if k == 4:
        return line + rnd.choice(("\n", "\n\n", "\r\n", " ", "  \n", "X", "\n "))
    return line.rstrip()

for fi, fmt in enumerate(FORMATS):
    nbytes = fmt.count('D') // 2
    # well formed, whole dump
    for rounds in range(4):
        total = rnd.randrange(0, 5 * max(nbytes, 1) + 2)
        blob = rbytes(total)
        lines = []
        step = max(nbytes, 1)
        for off in range(0, total, step):
            lines.append(render(blob[off:off + step], fmt, off))
        if rounds % 2:
            lines = [l + "\n" for l in lines]
        emit("p-wf-%d-%d" % (fi, rounds), lambda: parse(lines, fmt))
        if fmt is DEFAULT_LINE_FORMAT:
            emit("p-wf-dflt-%d" % rounds, lambda: parse(lines))
        # corrupted copies
        for m in range(25):
            bad = list(lines)
            for _ in range(rnd.randrange(1, 4)):
                if bad:
                    j = rnd.randrange(len(bad))
                    bad[j] = mutate(bad[j])
                else:
                    bad.append(mutate(''))
            emit("p-bad-%d-%d-%d" % (fi, rounds, m), lambda: parse(bad, fmt))
    # random text against the format
    for m in range(40):
        L = rnd.randrange(0, len(fmt) + 3)
        txt = ''.join(rnd.choice(JUNK) for _ in range(L))
        emit("p-rnd-%d-%d" % (fi, m), lambda: parse([txt], fmt))
    # every single-character line
    for ch in "0aFg :<[|D\n":
        emit("p-1ch-%d-%r" % (fi, ch), lambda: parse([ch], fmt))
    # the format itself and its prefixes
    for cut in range(len(fmt) + 1):
        emit("p-self-%d-%d" % (fi, cut), lambda: parse([fmt[:cut]], fmt))

# round trips of our own dumps
for size in (0, 1, 5, 16, 17, 31, 32, 33, 100):
    blob = rbytes(size)
    emit("p-rt-%d" % size, lambda: parse(hexdump(memoryview(blob))))
    emit("p-rt-nl-%d" % size,
         lambda: parse([l + "\n" for l in hexdump(memoryview(blob))]))
    emit("p-rt-8-2-%d" % size,
         lambda: parse(hexdump(memoryview(blob), 8, 2),
                       'AAAAAAAA     DDDD  DDDD  DDDD  DDDD     CCCCCCCC'))

# odd arguments
emit("p-none-lines", lambda: parse(None))
emit("p-empty", lambda: parse([]))
emit("p-empty-nonefmt", lambda: parse([], None))
emit("p-nonefmt", lambda: parse(['00'], None))
emit("p-bytes-line", lambda: parse([b'00000000     DEADBEEF']))
emit("p-none-line", lambda: parse([None]))
emit("p-int-line", lambda: parse([5]))
emit("p-gen", lambda: parse((l for l in ['00000000     DEADBEEF', 'zz', '00000010     0102'])))
emit("p-tuple", lambda: parse(('00000000     DEADBEEF', '00000004     AB')))
emit("p-str-lines", lambda: parse('00000000     DEADBEEF'))
emit("p-listfmt", lambda: parse(['0000 DEAD'], list('AAAA DDDD')))
emit("p-tuplefmt", lambda: parse(['0000 DEAD', '0000 DEXD'], tuple('AAAA DDDD')))
emit("p-bytesfmt", lambda: parse(['0000 DEAD'], b'AAAA DDDD'))
emit("p-intfmt", lambda: parse(['0000 DEAD'], 7))
emit("p-long", lambda: parse(['0' * 500, 'DEADBEEF' * 3], 'DDDDDDDD'))
emit("p-state", lambda: [bytes(parse(['AB', 'C', 'DE'], 'DD')).hex() for _ in range(2)])
emit("p-gen-consumed", lambda: (lambda g: (bytes(parse(g, 'DD')).hex(), list(g)))(iter(['AB', 'CD'])))
def gen_after_error():
    g = iter(['AB', 'A-B', 'CD', 'EF'])
    try:
        parse(g, 'D-D')
    except ValueError as e:
        return (str(e), list(g))
    return ('no error', list(g))
emit("p-gen-after-error", gen_after_error)
emit("p-attrs", lambda: sorted(k for k in vars(H) if k in ('hexdump', 'parse', 'DEFAULT_LINE_FORMAT')))
print("TOTAL", n)
'''

# --------------------------------------------------------------------------
# PEL construction


def bcd(*vals):
    return bytes(vals)


def sec_header(sid, length, ver=1, subtype=0, comp=0x1000):
    if isinstance(sid, str):
        sid = sid.encode()
    return sid + struct.pack('>HBBH', length & 0xFFFF, ver, subtype, comp)


def private_header(nsec, creator=b'O', comp=0x1000, obmc=0x1234, plid=0x50000001,
                   eid=0x50000001, ver=1, subtype=0,
                   created=bytes.fromhex('2022030818402755'),
                   committed=bytes.fromhex('2022030818402899'),
                   cver=b'\x01\x02\x03\x04\x05\x06\x07\x08'):
    body = created + committed + creator + b'\x00\x00' + bytes([nsec & 0xFF]) + \
        struct.pack('>I', obmc) + cver + struct.pack('>II', plid, eid)
    return sec_header('PH', 48, ver, subtype, comp) + body


def user_header(subsys=0x10, scope=0x03, sev=0x40, etype=0x00, domain=0, vector=0,
                flags=0xA000, states=0, comp=0x1000, ver=1, subtype=0):
    body = bytes([subsys, scope, sev, etype]) + b'\x00' * 4 + \
        bytes([domain, vector]) + struct.pack('>HI', flags, states)
    return sec_header('UH', 24, ver, subtype, comp) + body


def src_section(sid='PS', ascii_str=b'BD8D1001', comp=0x1000, flags=0, words=9):
    body = bytes([2, flags, 0, words]) + struct.pack('>HH', 0, 72)
    body += struct.pack('>8I', 0x020000E0, 0x00010000, 0x11223344, 0x03000000,
                        0xAABBCCDD, 5, 6, 7)
    body += ascii_str.ljust(32, b' ')
    return sec_header(sid, 8 + len(body), 1, 1, comp) + body


def generic_section(sid, payload, ver=1, subtype=0, comp=0x2000, length=None):
    if length is None:
        length = 8 + len(payload)
    return sec_header(sid, length, ver, subtype, comp) + payload


def build_pels(rnd):
    """Returns a dict name -> bytes of PEL files exercising hexdump()."""
    pels = {}

    def pel(sections, **ph):
        return private_header(2 + len(sections), **ph) + user_header() + b''.join(sections)

    pels['plain'] = pel([src_section()])
    for i, size in enumerate((0, 1, 3, 4, 15, 16, 17, 33, 64, 200)):
        payload = bytes(rnd.getrandbits(8) for _ in range(size))
        pels['dflt_%02d' % i] = pel([src_section(),
                                     generic_section('DH', payload),
                                     generic_section('EP', payload[::-1], comp=0x4142)],
                                    eid=0x50000100 + i, plid=0x50000100 + i)
    # user data hexdumped (unknown component, -P or no parser)
    for i, size in enumerate((0, 5, 16, 40)):
        payload = bytes(rnd.choice(b'AZ az09\x00\xff\x7f') for _ in range(size))
        pels['ud_%02d' % i] = pel([src_section(),
                                   generic_section('UD', payload, comp=0x7777),
                                   generic_section('ED', b'\x00' * 4 + payload, comp=0x7777),
                                   generic_section('UD', b'not json', comp=0x2000, subtype=1)],
                                  eid=0x50000200 + i, plid=0x50000200 + i)
    # section length lies
    pels['short_len'] = pel([generic_section('DH', b'ABCDEFGH', length=4)])
    pels['long_len'] = pel([generic_section('DH', b'ABCDEFGH', length=100)])
    pels['len8'] = pel([generic_section('DH', b'', length=8), generic_section('IE', b'1234')])
    # truncations of a good one
    good = pels['dflt_05']
    for cut in (0, 1, 7, 8, 20, 47, 48, 60, 72, 100, len(good) - 30, len(good) - 1):
        pels['trunc_%03d' % cut] = good[:cut]
    # random corruption
    for i in range(12):
        b = bytearray(good)
        for _ in range(rnd.randrange(1, 6)):
            b[rnd.randrange(len(b))] = rnd.getrandbits(8)
        pels['corrupt_%02d' % i] = bytes(b)
    pels['random'] = bytes(rnd.getrandbits(8) for _ in range(300))
    pels['empty'] = b''
    return pels


CLI_DIR_OPTS = [
    ['-a'], ['-a', '-E'], ['-a', '-x'], ['-a', '-E', '-x'], ['-a', '-E', '-P'],
    ['-l'], ['-l', '-E'], ['-l', '-x', '-E'], ['-n', '-E'], ['-a', '-E', '-r'],
    ['-i', '50000105'], ['-i', '50000105', '-x'], ['--bmc-id', '4660'],
    ['--bmc-id', '4660', '-x'], ['--plid', '50000102'], ['--plid', '50000102', '-x'],
    ['--src', 'BD8D1001'], ['--src', 'BD8D', '-x'],
]
CLI_FILE_OPTS = [[], ['-x'], ['-P'], ['-P', '-x']]


def normalise_err(text, root):
    text = text.replace(root, '<ROOT>')
    if 'Traceback (most recent call last):' in text:
        text = '\n'.join(l for l in text.splitlines() if not l.startswith(' '))
    return text


def run(cmd, root, cwd, optimise=False):
    env = dict(os.environ)
    env['PYTHONPATH'] = os.path.join(root, 'modules')
    env['PYTHONDONTWRITEBYTECODE'] = '1'
    env['PYTHONHASHSEED'] = '0'
    env['PYTHONWARNINGS'] = 'ignore'
    full = [PY] + (['-O'] if optimise else []) + cmd
    p = subprocess.run(full, cwd=cwd, env=env, stdout=subprocess.PIPE,
                       stderr=subprocess.PIPE, timeout=600)
    return (p.returncode, p.stdout.decode('utf-8', 'replace'),
            normalise_err(p.stderr.decode('utf-8', 'replace'), root))


def tree_state(path):
    state = []
    for r, _, files in sorted(os.walk(path)):
        for f in sorted(files):
            full = os.path.join(r, f)
            with open(full, 'rb') as fd:
                state.append((os.path.relpath(full, path), fd.read()))
    return state


def main():
    if len(sys.argv) != 3:
        sys.exit(__doc__)
    roots = [os.path.abspath(a) for a in sys.argv[1:3]]
    work = tempfile.mkdtemp(prefix='work_', dir=HERE)
    cases = 0
    diffs = []
    try:
        driver = os.path.join(work, 'driver.py')
        with open(driver, 'w') as fd:
            fd.write(DRIVER)

        # 1. in-process driver, with and without -O
        for opt in (False, True):
            results = [run([driver], root, work, optimise=opt) for root in roots]
            if results[0] != results[1]:
                a = results[0][1].splitlines()
                b = results[1][1].splitlines()
                for x, y in zip(a, b):
                    if x != y:
                        diffs.append('driver(-O=%s):\n  %s\n  %s' % (opt, x[:300], y[:300]))
                        break
                else:
                    diffs.append('driver(-O=%s): rc/stderr/length differ: %r vs %r' % (
                        opt, (results[0][0], results[0][2][-300:], len(a)),
                        (results[1][0], results[1][2][-300:], len(b))))
            last = results[0][1].strip().splitlines()[-1]
            if not last.startswith('TOTAL') or results[0][0] != 0:
                diffs.append('driver did not complete: rc=%s %s' % (results[0][0], results[0][2][-500:]))
            else:
                cases += int(last.split()[1])

        # 2. CLI
        rnd = random.Random(99)
        pels = build_pels(rnd)
        peldir = os.path.join(work, 'pels')
        outdir = os.path.join(work, 'out')

        def fresh():
            for d in (peldir, outdir):
                shutil.rmtree(d, ignore_errors=True)
                os.makedirs(d)
            for name, blob in pels.items():
                with open(os.path.join(peldir, name + '.pel'), 'wb') as fd:
                    fd.write(blob)

        for opt in (False, True):
            jobs = []
            for opts in CLI_DIR_OPTS:
                jobs.append(['-p', peldir] + opts)
            jobs.append(['-p', peldir, '-j', '-o', outdir, '-E'])
            jobs.append(['-p', peldir, '-j', '-o', outdir, '-E', '-P', '-c'])
            for name in sorted(pels):
                for opts in CLI_FILE_OPTS:
                    if opt and opts not in ([], ['-x']):
                        continue
                    jobs.append(['-f', os.path.join(peldir, name + '.pel')] + opts)
            for job in jobs:
                res = []
                for root in roots:
                    fresh()
                    tool = os.path.join(root, 'modules', 'pel', 'peltool', 'peltool.py')
                    r = run([tool] + job, root, work, optimise=opt)
                    res.append((r, tree_state(peldir), tree_state(outdir)))
                cases += 1
                if res[0] != res[1]:
                    diffs.append('CLI(-O=%s) %s' % (opt, ' '.join(job)))
    finally:
        shutil.rmtree(work, ignore_errors=True)

    if diffs:
        print('DIFFERENT (%d of %d cases)' % (len(diffs), cases))
        for d in diffs[:20]:
            print(d)
        sys.exit(1)
    print('IDENTICAL (%d cases)' % cases)
    sys.exit(0)


if __name__ == '__main__':
    main()
