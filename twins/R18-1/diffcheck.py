#!/usr/bin/env python3
"""
Differential check for refactorings of the PEL selection filter / value tables.

usage: diffcheck.py <pristine_root> <patched_root>

Both trees are exercised through subprocesses (PYTHONPATH=<root>/modules) on
identical inputs; stdout, stderr, exit status and file system effects are
compared.  Prints "IDENTICAL (<n> cases)" and exits 0 if nothing differs,
exits 1 otherwise.
"""
import hashlib
import itertools
import json
import os
import random
import re
import shutil
import struct
import subprocess
import sys
import tempfile
from concurrent.futures import ThreadPoolExecutor

PY = sys.executable
HERE = os.path.dirname(os.path.abspath(__file__))

# --------------------------------------------------------------------------
# building binary PELs
# --------------------------------------------------------------------------


def bcd_time(y=0x2024, mo=0x03, d=0x08, h=0x18, mi=0x40, s=0x27, hs=0x00):
    return struct.pack(">HBBBBBB", y, mo, d, h, mi, s, hs)


def sec_hdr(sid, length, ver=1, sub=0, comp=0x1000):
    return struct.pack(">HHBBH", sid, length, ver, sub, comp)


def private_header(creator=b"O", count=2, obmc=1, plid=0x50000001,
                   eid=0x50000001, comp=0x1000, sid=0x5048, mo=0x03):
    body = bcd_time(mo=mo) + bcd_time(mo=mo, s=0x28) + creator + b"\x00\x00" + \
        bytes([count]) + struct.pack(">I", obmc) + \
        struct.pack(">Q", 0x0102030405060708) + struct.pack(">II", plid, eid)
    return sec_hdr(sid, 48, comp=comp) + body


def user_header(sev=0x40, flags=0xA000, subsystem=0x10, scope=0x03,
                etype=0x00, states=0x00000000, comp=0x1000, sid=0x5548):
    body = struct.pack(">BBBBIBBHI", subsystem, scope, sev, etype, 0, 0, 0,
                       flags, states)
    return sec_hdr(sid, 24, comp=comp) + body


def src_section(ascii_src=b"BD8D5678", words=None, flags=0, wordcount=9,
                sid=0x5053, comp=0x1000):
    words = words or [0x55, 0x10, 0x20, 0x30, 0x40, 0x50, 0x60, 0x70]
    body = struct.pack(">BBBBHH", 2, flags, 0, wordcount, 0, 72)
    body += b"".join(struct.pack(">I", w) for w in words)
    body += ascii_src.ljust(32, b" ")
    return sec_hdr(sid, 80, comp=comp) + body


def ud_section(data=b"\x01\x02\x03\x04hello", comp=0x1234, sub=1, ver=1,
               sid=0x5544):
    return sec_hdr(sid, 8 + len(data), ver=ver, sub=sub, comp=comp) + data


def mtms_section(comp=0x1000):
    return sec_hdr(0x4D54, 28, comp=comp) + b"9105-22A" + b"SN1234567890"


def build_pel(creator=b"O", sev=0x40, flags=0xA000, eid=0x50000001,
              plid=None, obmc=1, src=b"BD8D5678", extra=(), states=0,
              ph_comp=0x1000, uh_comp=0x1000, subsystem=0x10, scope=3,
              etype=0, mo=0x03):
    sections = []
    if src is not None:
        sections.append(src_section(src))
    sections.extend(extra)
    plid = eid if plid is None else plid
    return private_header(creator, 2 + len(sections), obmc, plid, eid,
                          comp=ph_comp, mo=mo) + \
        user_header(sev, flags, subsystem, scope, etype, states,
                    comp=uh_comp) + b"".join(sections)


def pel_name(n, eid):
    return "20240308184027%02d_%08X" % (n % 100, eid)


def write(path, data):
    with open(path, "wb") as f:
        f.write(data)


SEVS = [0x00, 0x10, 0x20, 0x21, 0x40, 0x44, 0x50, 0x51, 0x53, 0x60, 0x61,
        0x71, 0x75, 0x05, 0x3F, 0xFF]
FLAGS = [0x0000, 0x8000, 0x4000, 0x2000, 0xA000, 0x6000, 0xC000, 0xE000,
         0x2800, 0x4920, 0xFFFF, 0x0120]


def make_inputs(base):
    """Create all input directories; returns dict of name -> path."""
    rnd = random.Random(20240308)
    dirs = {}

    # --- matrix of severities x action flags -----------------------------
    d = os.path.join(base, "matrix")
    os.mkdir(d)
    n = 0
    creators = [b"O", b"B", b"H", b"X", b"M"]
    for sev in SEVS:
        for flags in FLAGS:
            eid = 0x50000000 + n
            creator = creators[n % len(creators)]
            extra = []
            if n % 7 == 0:
                extra.append(ud_section(comp=0x2000, sub=1,
                                        data=b'{"k": "v%d"}' % n))
            if n % 11 == 0:
                extra.append(mtms_section())
            src = b"BD8D5678" if n % 3 else b"BC8A1234"
            if n % 13 == 0:
                src = None
            write(os.path.join(d, pel_name(n, eid)),
                  build_pel(creator, sev, flags, eid, plid=0x50000000 + n // 4,
                            obmc=n + 1, src=src, extra=extra,
                            states=(n * 37) & 0xFFFF,
                            ph_comp=[0x1000, 0x4142, 0xE500, 0x0041][n % 4],
                            uh_comp=[0x2000, 0x4800, 0x3100][n % 3],
                            subsystem=[0x10, 0x8D, 0x99, 0x76][n % 4],
                            scope=n % 6, etype=[0, 1, 2, 8, 0x30, 9][n % 6]))
            n += 1
    dirs["matrix"] = d

    # --- small directory, varied extensions, sub directory ---------------
    d = os.path.join(base, "small")
    os.mkdir(d)
    small = [
        (0x40, 0xA000, b"O", ""), (0x00, 0x0000, b"O", ".pel"),
        (0x00, 0x8000, b"B", ".pel"), (0x51, 0x6000, b"H", ".txt"),
        (0x20, 0x2000, b"O", ""), (0x71, 0x4000, b"X", ".pel"),
        (0x10, 0x0000, b"O", ".pel"), (0x51, 0x2000, b"O", ""),
    ]
    for i, (sev, flags, creator, ext) in enumerate(small):
        eid = 0x90000010 + i
        write(os.path.join(d, pel_name(i, eid) + ext),
              build_pel(creator, sev, flags, eid, obmc=100 + i,
                        extra=[ud_section(), ud_section(comp=0xE500, sub=2)]))
    os.mkdir(os.path.join(d, "subdir"))
    write(os.path.join(d, "subdir", pel_name(50, 0x90000050)),
          build_pel(eid=0x90000050))
    write(os.path.join(d, "notapel.pel"), b"this is not a PEL at all")
    write(os.path.join(d, "empty"), b"")
    dirs["small"] = d

    # --- malformed: truncations, corruptions, random ----------------------
    d = os.path.join(base, "malformed")
    os.mkdir(d)
    good = build_pel(b"O", 0x40, 0xA000, 0x70000001,
                     extra=[ud_section(), mtms_section()])
    k = 0
    for cut in list(range(0, 90)) + list(range(90, len(good), 5)):
        write(os.path.join(d, "trunc_%04d_%08X" % (cut, 0x70000000 + k)),
              good[:cut])
        k += 1
    for i in range(120):
        b = bytearray(good)
        for _ in range(rnd.randint(1, 4)):
            b[rnd.randrange(len(b))] = rnd.randrange(256)
        write(os.path.join(d, "corrupt_%04d" % i), bytes(b))
    # targeted corruptions of the fields the filter looks at
    for i in range(80):
        b = bytearray(good)
        b[48 + 8 + 2] = rnd.randrange(256)          # severity
        b[48 + 8 + 10] = rnd.randrange(256)         # action flags hi
        b[48 + 8 + 11] = rnd.randrange(256)         # action flags lo
        b[16 + 8] = rnd.choice(b"OBHCKLMPSTXZ\xc3\x00")  # creator id
        b[6] = rnd.randrange(256)
        b[7] = rnd.randrange(256)                   # PH component id
        write(os.path.join(d, "field_%04d" % i), bytes(b))
    for i in range(40):
        write(os.path.join(d, "random_%04d" % i),
              bytes(rnd.randrange(256) for _ in range(rnd.randint(0, 300))))
    for i in range(20):
        # random tail after a valid PH/UH, section count too large
        b = bytearray(private_header(b"O", 9, eid=0x71000000 + i) +
                      user_header(rnd.choice(SEVS), rnd.choice(FLAGS)))
        b += bytes(rnd.randrange(256) for _ in range(rnd.randint(0, 120)))
        write(os.path.join(d, "tail_%04d" % i), bytes(b))
    dirs["malformed"] = d

    # --- src exclude files ------------------------------------------------
    write(os.path.join(base, "exclude.txt"), b"BD8D5678\n")
    write(os.path.join(base, "exclude2.txt"), b"BC8A1234\nFFFFFFFF\n")
    return dirs


# --------------------------------------------------------------------------
# fake pel_registry packages / BMC config dirs for comp_id
# --------------------------------------------------------------------------

REG_INIT = '''
import os
def get_registry_path():
    return os.path.join(os.path.dirname(__file__), "message_registry.json")
'''

MSG_REGISTRY = {"PELs": [
    {"Name": "x", "SRC": {"ReasonCode": "0x5678",
                          "Words6To9": {"6": {"Description": "d6",
                                              "AdditionalDataPropSource": "W6"}}},
     "Documentation": {"Message": "msg %1", "MessageArgSources": ["SRCWord6"]}},
    {"Name": "y", "SRC": {"Type": "BC", "ReasonCode": "0x1234"},
     "Documentation": {"Message": "hostboot msg"}},
]}

GOOD_IDS = {
    "O": {"1000": "bmc common", "2000": "phosphor-logging", "E500": "hwdiags",
          "3100": "dump", "FFFF": "all f", "0000": "zero"},
    "B": {"1000": "hb common", "4142": "hb AB", "0041": "hb 41"},
    "M": {"2C00": "io drawer"},
    "X": {"1000": "unknown creator"},
    "H": {"4142": "never used (PHYP is ascii)"},
}


def make_registry(base, name, files, init=REG_INIT, as_module=False):
    """Create <base>/<name>/pel_registry/... and return <base>/<name>."""
    top = os.path.join(base, name)
    os.mkdir(top)
    if as_module:
        pkg = top
        with open(os.path.join(top, "pel_registry.py"), "w") as f:
            f.write(init)
    else:
        pkg = os.path.join(top, "pel_registry")
        os.mkdir(pkg)
        with open(os.path.join(pkg, "__init__.py"), "w") as f:
            f.write(init)
    with open(os.path.join(pkg, "message_registry.json"), "w") as f:
        json.dump(MSG_REGISTRY, f)
    for fname, content in files.items():
        p = os.path.join(pkg, fname)
        if content is None:
            os.mkdir(p)
        elif isinstance(content, bytes):
            write(p, content)
        else:
            with open(p, "w") as f:
                json.dump(content, f)
    return top


def make_config_dir(base, name, files):
    top = os.path.join(base, name)
    os.mkdir(top)
    for fname, content in files.items():
        p = os.path.join(top, fname)
        if content is None:
            os.mkdir(p)
        elif isinstance(content, bytes):
            write(p, content)
        else:
            with open(p, "w") as f:
                json.dump(content, f)
    return top


def make_registries(base):
    regs = {}
    good_files = {c + "_component_ids.json": v for c, v in GOOD_IDS.items()}
    regs["good"] = make_registry(base, "reg_good", good_files)
    regs["module"] = make_registry(base, "reg_module", good_files,
                                   as_module=True)
    weird = {
        "O_component_ids.json": GOOD_IDS["O"],
        "B_component_ids.json": ["1000", "4142"],
        "C_component_ids.json": "xx1000yy",
        "K_component_ids.json": 1000,
        "L_component_ids.json": {"1000": None},
        "M_component_ids.json.bak": {"1000": "bak file"},
        "_component_ids.json": {"1000": "empty creator"},
        "S_component_ids.json_component_ids.json": {"1000": "double suffix"},
        "T_component_ids.json": {"e500": "lower", "00aB": "mixed",
                                 "1000": 42, "2000": ["a", "b"]},
        "P_component_ids.JSON": {"1000": "wrong case suffix"},
        "unrelated.json": {"1000": "unrelated"},
        "Xcomponent_ids.json": {"1000": "no underscore"},
        "OO_component_ids.json": {"1000": "two letter creator"},
    }
    regs["weird"] = make_registry(base, "reg_weird", weird)
    regs["null"] = make_registry(base, "reg_null", {
        "O_component_ids.json": b"null", "B_component_ids.json": b"7"})
    regs["badjson"] = make_registry(base, "reg_badjson", {
        "B_component_ids.json": b"{ this is not json",
    })
    regs["badjson2"] = make_registry(base, "reg_badjson2", {
        "A_component_ids.json": {"1000": "a"},
        "B_component_ids.json": b"{ this is not json",
        "C_component_ids.json": {"1000": "c"},
        "D_component_ids.json": b"\xff\xfe\x00",
        "O_component_ids.json": GOOD_IDS["O"],
    })
    regs["isdir"] = make_registry(base, "reg_isdir", {
        "O_component_ids.json": None})
    regs["empty"] = make_registry(base, "reg_empty", {})
    regs["importerror"] = make_registry(
        base, "reg_importerror", good_files,
        init="raise ImportError('broken registry package')\n")
    regs["nestedmissing"] = make_registry(
        base, "reg_nestedmissing", good_files,
        init="import module_that_does_not_exist_xyz\n")
    regs["nofile"] = make_registry(
        base, "reg_nofile", good_files, init=REG_INIT + "\n__file__ = None\n")
    cfgs = {}
    cfgs["bmc_good"] = make_config_dir(base, "bmc_good", good_files)
    cfgs["bmc_empty"] = make_config_dir(base, "bmc_empty", {})
    cfgs["bmc_bad"] = make_config_dir(base, "bmc_bad", {
        "O_component_ids.json": GOOD_IDS["O"],
        "Z_component_ids.json": b"[1, 2"})
    p = os.path.join(base, "bmc_file")
    write(p, b"i am a file")
    cfgs["bmc_file"] = p
    return regs, cfgs


# --------------------------------------------------------------------------
# in-process driver (runs inside the subprocess, against ONE tree)
# --------------------------------------------------------------------------

DRIVER = r'''
import sys, os, json, hashlib, itertools, io, inspect, contextlib


def out(*a):
    print(*a)


def mode_tables():
    import pel.peltool.pel_values as pv
    import pel.peltool.pel_types as pt
    import pel.peltool.config as cfg
    import enum
    out("pel_values doc", repr(pv.__doc__))
    names = sorted(n for n in vars(pv) if not n.startswith("_"))
    for n in names:
        v = getattr(pv, n)
        if isinstance(v, dict):
            out("DICT", n, type(v).__name__, len(v))
            for k, val in v.items():
                out("   ", type(k).__name__, repr(k), type(val).__name__, repr(val))
        elif inspect.ismodule(v) or inspect.isclass(v) or callable(v):
            pass
        else:
            out("OTHER", n, repr(v))
    public = ["creatorIDs", "sectionNames", "subsystemValues",
              "eventScopeValues", "eventTypeValues", "severityValues",
              "severityGroupValues", "actionFlagsValues", "transmissionStates",
              "failingComponentType", "calloutPriorityValues"]
    for n in public:
        out("HAS", n, hasattr(pv, n))
    out("pel_types doc", repr(pt.__doc__))
    for n in ["SeverityValues", "ActionFlagsValues", "TransmissionState",
              "SectionID", "SRCType"]:
        cls = getattr(pt, n)
        out("ENUM", n, cls.__name__, cls.__qualname__, cls.__module__,
            [b.__name__ for b in cls.__mro__], repr(cls.__doc__))
        for m in cls:
            out("   ", m.name, type(m.value).__name__, repr(m.value), repr(m), str(m))
        out("   members", list(cls.__members__))
        for m in cls:
            assert cls(m.value) is m
            assert cls[m.name] is m
    for bad in (0x1234, "PH", None):
        for n in ["SectionID", "SeverityValues"]:
            try:
                getattr(pt, n)(bad)
                out("no error")
            except Exception as e:
                out("ERR", n, type(e).__name__, e)
    c = cfg.Config()
    out("CONFIG", type(c).__name__, type(c).__module__, repr(cfg.Config.__doc__))
    for k, v in vars(c).items():
        out("   ", k, type(v).__name__, repr(v))
    c2 = cfg.Config()
    out("shared severities", c.severities is c2.severities)
    c.severities.append(3)
    out(c2.severities, c.severities)
    out("sig", str(inspect.signature(cfg.Config.__init__)))
    out("eq", c == c2, c == c, hash(c) == hash(c), c != c2)
    try:
        cfg.Config(1)
        out("accepted positional")
    except TypeError as e:
        out("TypeError")
    import pel.peltool.comp_id as ci
    import pel.peltool.user_header as uhm
    import pel.peltool.peltool as ptool
    for f in [ci.getAllCreatorsCompIDs, ci.getDisplayCompID,
              uhm.UserHeader.__init__, uhm.UserHeader.isHidden,
              uhm.UserHeader.isServiceable, uhm.UserHeader.toJSON,
              ptool.considerPEL, ptool.considerPELIfSeverityMatches,
              ptool.getSectionName, ptool.parsePEL]:
        out("SIG", f.__qualname__, str(inspect.signature(f)))
    out("comp_id globals", repr(ci.componentIDs), repr(ci.pelConfigRootPath),
        repr(ci.attemptedToParseCompIDs))
    for sid in list(range(0, 0x10000, 257)) + [m.value for m in pt.SectionID]:
        out("secname", hex(sid), ptool.getSectionName(sid))


def make_uh(sev, flags):
    from pel.peltool.user_header import UserHeader
    uh = UserHeader(None, 0x5548, 24, 1, 0, 0x1000, "O")
    uh.eventSeverity = sev
    uh.actionFlags = flags
    return uh


def mode_uh():
    sevs = list(range(256))
    flagset = sorted(set(
        [a | b for a in (0, 0x8000, 0x4000, 0x2000, 0xC000, 0xA000, 0x6000, 0xE000)
         for b in (0, 0x1000, 0x0800, 0x0400, 0x0100, 0x0020, 0x1D20, 0x1FFF, 0x0001)]))
    h = hashlib.sha256()
    lines = 0
    for sev in sevs:
        for fl in flagset:
            uh = make_uh(sev, fl)
            a = uh.isHidden()
            b = uh.isServiceable()
            s = "%d %d %r %s %r %s" % (sev, fl, a, type(a).__name__, b, type(b).__name__)
            h.update(s.encode())
            lines += 1
            if sev in (0, 0x10, 0x40, 0x51) :
                out(s)
    out("uh digest", lines, h.hexdigest())
    # fresh, never decoded header
    from pel.peltool.user_header import UserHeader
    uh = UserHeader(None, 0x5548, 24, 1, 0, 0x1000, "O")
    out("fresh", repr(uh.isHidden()), repr(uh.isServiceable()))
    out("attrs", sorted(vars(uh)))


def mode_uhjson():
    # decode user headers through toJSON from generated byte strings
    import random, struct
    from pel.datastream import DataStream
    from pel.peltool.user_header import UserHeader
    import pel.peltool.comp_id as ci
    ci.attemptedToParseCompIDs = True   # keep registry lookups out of this mode
    rnd = random.Random(4711)
    for i in range(3000):
        n = 16 if i % 10 else rnd.randint(0, 15)
        data = bytes(rnd.randrange(256) for _ in range(n))
        if i % 3 == 0 and n == 16:
            data = bytes([rnd.choice([0x10, 0x8D, 0x55]), rnd.randrange(6),
                          rnd.choice([0, 0x10, 0x20, 0x40, 0x51, 0x71]),
                          rnd.choice([0, 1, 2, 8, 0x30])]) + data[4:]
        st = DataStream(data, byte_order='big', is_signed=False)
        uh = UserHeader(st, 0x5548, 24, rnd.randrange(256), rnd.randrange(256),
                        rnd.randrange(65536), rnd.choice("OBHXM"))
        try:
            j = uh.toJSON()
            out(i, json.dumps(j), st.index, repr(uh.isHidden()), repr(uh.isServiceable()),
                [(k, v) for k, v in sorted(vars(uh).items()) if k != "stream"])
        except Exception as e:
            out(i, "EXC", type(e).__name__, e, st.index,
                [(k, v) for k, v in sorted(vars(uh).items()) if k != "stream"])


def mode_filter(part, nparts):
    import pel.peltool.peltool as ptool
    from pel.peltool.config import Config
    part = int(part); nparts = int(nparts)
    sevs = [0x00, 0x01, 0x0F, 0x10, 0x20, 0x21, 0x24, 0x40, 0x41, 0x48, 0x50,
            0x51, 0x52, 0x54, 0x60, 0x61, 0x71, 0x76, 0x30, 0x80, 0xFF]
    flagset = [a | b for a in (0, 0x8000, 0x4000, 0x2000, 0xC000, 0xA000, 0x6000, 0xE000)
               for b in (0, 0x0920)]
    uhs = [make_uh(s, f) for s in sevs for f in flagset]
    sevlists = [[], [0], [5], [4, 5], [2, 7, 1], [0, 1, 2, 4, 5, 6, 7], [3], [5, 5]]
    ids = [{}, {"plid": "50000001"}, {"src": "BD"}, {"bmcID": "12"},
           {"pelID": "0x50000001"}, {"srcExcludeFile": "/x"}, {"plid": ""},
           {"src": "BD", "plid": "1"}]
    bools = ["every_pel", "critSysTerm", "serviceable", "non_serviceable", "hidden", "only"]
    idx = 0
    for combo in itertools.product([False, True], repeat=len(bools)):
        for sl in sevlists:
            for idd in ids:
                idx += 1
                if idx % nparts != part:
                    continue
                c = Config()
                for k, v in zip(bools, combo):
                    setattr(c, k, v)
                c.severities = list(sl)
                for k, v in idd.items():
                    setattr(c, k, v)
                res = []
                for uh in uhs:
                    r = ptool.considerPEL(uh, c)
                    m = ptool.considerPELIfSeverityMatches(uh, c)
                    res.append("%s%s" % ("T" if r is True else "F" if r is False else repr(r),
                                         "t" if m is True else "f" if m is False else repr(m)))
                s = "".join(res)
                out(idx, "".join(str(int(b)) for b in combo), sl, sorted(idd.items()),
                    hashlib.sha1(s.encode()).hexdigest()[:16], s.count("T"), s.count("t"))
                # config must not have been modified
                assert c.severities == sl


def mode_compid(scenario):
    cfgdir = os.environ.get("DC_BMC_DIR")
    import pel.peltool.comp_id as ci
    if cfgdir:
        ci.pelConfigRootPath = cfgdir
    creators = ["O", "B", "H", "C", "K", "L", "M", "P", "S", "T", "X", "", "h", "OO", "é", "o"]
    comps = [0x0000, 0x0041, 0x4100, 0x4142, 0x1000, 0x2000, 0x2C00, 0x3100, 0xE500,
             0xFFFF, 0x00AB, 0xE5, 0x7E7F, 0x2020, 0x0A0A, 0xD7FF, 0x100, 70000, -1]

    def state():
        return "STATE attempted=%r ids=%s" % (
            ci.attemptedToParseCompIDs,
            json.dumps(ci.componentIDs, sort_keys=False))

    def call(comp, cr):
        try:
            r = ci.getDisplayCompID(comp, cr)
            out("CALL", comp, repr(cr), "->", type(r).__name__, repr(r))
        except BaseException as e:
            out("CALL", comp, repr(cr), "EXC", type(e).__name__, e)

    out(state())
    if scenario.endswith("+direct"):
        # call the loader directly (several times) before any look-up
        for _ in range(3):
            try:
                out("DIRECT", repr(ci.getAllCreatorsCompIDs()))
            except BaseException as e:
                out("DIRECT EXC", type(e).__name__, e)
            out(state())
    first = True
    for cr in creators:
        for comp in comps:
            call(comp, cr)
            if first:
                out(state())
                first = False
    out(state())
    try:
        out("DIRECT", repr(ci.getAllCreatorsCompIDs()))
    except BaseException as e:
        out("DIRECT EXC", type(e).__name__, e)
    out(state())
    # wrong types
    for comp, cr in [("1000", "O"), (1.5, "O"), (None, "O"), (0x1000, None),
                     (0x1000, ["O"]), (True, "O"), (0x4142, b"H"), (None, "H"), ("AB", "H")]:
        call(comp, cr)
    # clearing the cache does not trigger a second load attempt
    ci.componentIDs.clear()
    call(0x1000, "O")
    out(state())
    # resetting the flag does
    ci.attemptedToParseCompIDs = False
    call(0x1000, "O")
    call(0x1000, "B")
    out(state())
    # mutated creator table
    import pel.peltool.pel_values as pv
    pv.creatorIDs["Q"] = "PHYP"
    call(0x4142, "Q")
    del pv.creatorIDs["H"]
    call(0x4142, "H")
    out(state())


if __name__ == "__main__":
    m = sys.argv[1]
    globals()["mode_" + m](*sys.argv[2:])
    sys.stdout.flush()
'''


# --------------------------------------------------------------------------
# running cases
# --------------------------------------------------------------------------

TRACEBACK_FILE_RE = re.compile(r'^\s+File "[^"]*", line \d+.*$')


def normalise(text, root):
    text = text.replace(root, "<ROOT>")
    if "Traceback (most recent call last):" not in text:
        return text
    # keep traceback structure but drop line numbers / source lines, which
    # legitimately differ when a file has been edited
    res = []
    lines = text.split("\n")
    i = 0
    in_tb = False
    while i < len(lines):
        line = lines[i]
        if line.startswith("Traceback (most recent call last):"):
            in_tb = True
            res.append(line)
        elif in_tb and TRACEBACK_FILE_RE.match(line):
            m = re.match(r'^\s+File "([^"]*)", line \d+, in (.*)$', line)
            res.append("  File %s" % (os.path.basename(m.group(1)) if m else "?"))
        elif in_tb and line.startswith("    "):
            pass
        else:
            in_tb = False
            res.append(line)
        i += 1
    return "\n".join(res)


def snapshot(path):
    """Recursive listing with content hashes."""
    res = []
    if not path or not os.path.exists(path):
        return res
    for root, dirs, files in os.walk(path):
        dirs.sort()
        for f in sorted(files):
            p = os.path.join(root, f)
            with open(p, "rb") as fd:
                h = hashlib.sha1(fd.read()).hexdigest()
            res.append((os.path.relpath(p, path), h))
        for dd in dirs:
            res.append((os.path.relpath(os.path.join(root, dd), path), "dir"))
    return res


class Case:
    def __init__(self, name, argv, extra_path=None, env=None, opt=False,
                 scratch_from=None, snapshot_dirs=(), mkdirs=(), cwd=None):
        self.name = name
        self.argv = argv              # after the interpreter; may hold {ROOT}
        self.extra_path = extra_path  # extra PYTHONPATH entry
        self.env = env or {}
        self.opt = opt                # run with python -O
        self.scratch_from = scratch_from   # dir copied to {SCRATCH} per run
        self.snapshot_dirs = snapshot_dirs
        self.mkdirs = mkdirs
        self.cwd = cwd


def run_case(case, root, work, slot):
    scratch = os.path.join(work, "scratch_%d" % slot)
    if os.path.exists(scratch):
        shutil.rmtree(scratch)
    os.mkdir(scratch)
    if case.scratch_from:
        shutil.copytree(case.scratch_from, os.path.join(scratch, "in"))
    for m in case.mkdirs:
        os.makedirs(os.path.join(scratch, m))
    env = {k: v for k, v in os.environ.items()
           if not k.startswith("PYTHON")}
    pp = [os.path.join(root, "modules")]
    if case.extra_path:
        pp.append(case.extra_path)
    env["PYTHONPATH"] = os.pathsep.join(pp)
    env["PYTHONDONTWRITEBYTECODE"] = "1"
    env["PYTHONHASHSEED"] = "0"
    env["COLUMNS"] = "80"
    for k, v in case.env.items():
        env[k] = v
    argv = [a.replace("{ROOT}", root).replace("{SCRATCH}", scratch)
            for a in case.argv]
    cmd = [PY] + (["-O"] if case.opt else []) + argv
    p = subprocess.run(cmd, env=env, cwd=scratch, stdin=subprocess.DEVNULL,
                       stdout=subprocess.PIPE, stderr=subprocess.PIPE,
                       timeout=600)
    so = normalise(p.stdout.decode("utf-8", "replace"), root).replace(scratch, "<SCRATCH>")
    se = normalise(p.stderr.decode("utf-8", "replace"), root).replace(scratch, "<SCRATCH>")
    snap = snapshot(scratch)
    shutil.rmtree(scratch)
    return {"rc": p.returncode, "stdout": so, "stderr": se, "fs": snap}


def main():
    if len(sys.argv) != 3:
        print(__doc__)
        sys.exit(2)
    pristine = os.path.abspath(sys.argv[1])
    patched = os.path.abspath(sys.argv[2])
    work = tempfile.mkdtemp(prefix="dc_", dir=HERE)
    try:
        ok, n = check(pristine, patched, work)
    finally:
        shutil.rmtree(work, ignore_errors=True)
    if ok:
        print("IDENTICAL (%d cases)" % n)
        sys.exit(0)
    print("DIFFERENT (%d cases)" % n)
    sys.exit(1)


def check(pristine, patched, work):
    dirs = make_inputs(work)
    regs, cfgs = make_registries(work)
    driver = os.path.join(work, "driver.py")
    with open(driver, "w") as f:
        f.write(DRIVER)
    tool = "{ROOT}/modules/pel/peltool/peltool.py"
    cases = []

    # ---- in-process checks ------------------------------------------------
    for opt in (False, True):
        o = "-O" if opt else ""
        cases.append(Case("tables" + o, [driver, "tables"], opt=opt))
        cases.append(Case("tables+reg" + o, [driver, "tables"], opt=opt,
                          extra_path=regs["good"]))
        cases.append(Case("uh" + o, [driver, "uh"], opt=opt))
        cases.append(Case("uhjson" + o, [driver, "uhjson"], opt=opt))
    nparts = 13
    for part in range(nparts):
        cases.append(Case("filter%d" % part,
                          [driver, "filter", str(part), str(nparts)],
                          opt=(part % 4 == 3)))
    for opt in (False, True):
        o = "-O" if opt else ""
        cases.append(Case("compid-none" + o, [driver, "compid", "none"], opt=opt))
        cases.append(Case("compid-none+direct" + o,
                          [driver, "compid", "none+direct"], opt=opt))
        for rname, rpath in sorted(regs.items()):
            cases.append(Case("compid-reg-%s%s" % (rname, o),
                              [driver, "compid", rname], extra_path=rpath,
                              opt=opt))
            cases.append(Case("compid-reg-%s+direct%s" % (rname, o),
                              [driver, "compid", rname + "+direct"],
                              extra_path=rpath, opt=opt))
        for cname, cpath in sorted(cfgs.items()):
            cases.append(Case("compid-%s%s" % (cname, o),
                              [driver, "compid", cname], opt=opt,
                              env={"DC_BMC_DIR": cpath}))
            # BMC path takes precedence over an installed registry
            cases.append(Case("compid-%s+reg%s" % (cname, o),
                              [driver, "compid", cname + "+direct"], opt=opt,
                              extra_path=regs["weird"],
                              env={"DC_BMC_DIR": cpath}))

    # ---- CLI --------------------------------------------------------------
    cases.append(Case("help", [tool, "--help"]))
    cases.append(Case("help-O", [tool, "--help"], opt=True))
    cases.append(Case("noargs", [tool]))
    cases.append(Case("nopath", [tool, "-l"]))
    cases.append(Case("badpath", [tool, "-p", "/nonexistent/dir", "-l"]))
    cases.append(Case("badsev", [tool, "-p", dirs["small"], "-l", "-S", "Bogus"]))

    sel_flags = ["-E", "-s", "-N", "-H", "-t", "-O"]
    sev_opts = [[], ["-S", "Informational"], ["-S", "Critical", "Predictive"],
                ["-S", "Symptom", "Recovered", "Unrecoverable", "Diagnostic"]]
    all_sel = []
    for r in range(len(sel_flags) + 1):
        for combo in itertools.combinations(sel_flags, r):
            for so in sev_opts:
                all_sel.append(list(combo) + so)
    rnd = random.Random(99)
    # -n over the complete option matrix
    for i, sel in enumerate(all_sel):
        cases.append(Case("count-matrix-%d" % i,
                          [tool, "-p", dirs["matrix"], "-n"] + sel,
                          extra_path=regs["good"] if i % 2 else None,
                          opt=(i % 5 == 0)))
    # -l / -a over a sample of it
    for i, sel in enumerate(rnd.sample(all_sel, 70)):
        extra = rnd.choice([[], ["-r"], ["-x"], ["-P"], ["-r", "-P"]])
        cases.append(Case("list-matrix-%d" % i,
                          [tool, "-p", dirs["matrix"], "-l"] + sel + extra,
                          extra_path=regs["good"] if i % 2 else None,
                          opt=(i % 5 == 0)))
    for i, sel in enumerate(rnd.sample(all_sel, 50)):
        extra = rnd.choice([[], ["-r"], ["-x"], ["-P"], ["-r", "-P"]])
        cases.append(Case("all-matrix-%d" % i,
                          [tool, "-p", dirs["matrix"], "-a"] + sel + extra,
                          extra_path=regs["good"] if i % 3 else None,
                          opt=(i % 5 == 0)))
    # component id look-ups with the odd registries through the CLI
    for rname in ["weird", "null", "badjson", "badjson2", "isdir", "empty",
                  "module", "nestedmissing"]:
        for mode in (["-l", "-E"], ["-a", "-E"], ["-n", "-E"], ["-a"]):
            cases.append(Case("reg-%s-%s" % (rname, "".join(mode)),
                              [tool, "-p", dirs["small"]] + mode,
                              extra_path=regs[rname]))
    # small dir, all modes, extensions
    for i, sel in enumerate(rnd.sample(all_sel, 40)):
        for mode in ("-l", "-a", "-n"):
            ext = rnd.choice([[], ["-e", ".pel"], ["-e", ".txt"], ["-e", ".none"]])
            cases.append(Case("small-%s-%d" % (mode, i),
                              [tool, "-p", dirs["small"], mode] + sel + ext,
                              extra_path=regs["good"] if i % 2 else None))
    # malformed dir
    for sel in ([], ["-E"], ["-N"], ["-H", "-O"], ["-s", "-N", "-H"],
                ["-S", "Unrecoverable", "-O"], ["-t"], ["-E", "-x"],
                ["-N", "-S", "Critical"]):
        for mode in ("-l", "-a", "-n"):
            cases.append(Case("malformed-%s-%s" % (mode, "".join(sel)),
                              [tool, "-p", dirs["malformed"], mode] + sel))
            cases.append(Case("malformed-reg-%s-%s" % (mode, "".join(sel)),
                              [tool, "-p", dirs["malformed"], mode] + sel,
                              extra_path=regs["good"], opt=True))
    # single files (-f), exit_on_error path
    small_files = sorted(os.listdir(dirs["small"]))
    for f in small_files:
        p = os.path.join(dirs["small"], f)
        if os.path.isdir(p):
            continue
        for sel in ([], ["-E"], ["-H"], ["-N", "-O"], ["-x", "-E"],
                    ["-S", "Informational"], ["-t"]):
            cases.append(Case("file-%s-%s" % (f, "".join(sel)),
                              [tool, "-f", p] + sel,
                              extra_path=regs["good"]))
    mal_files = sorted(os.listdir(dirs["malformed"]))
    for f in rnd.sample(mal_files, 80):
        p = os.path.join(dirs["malformed"], f)
        sel = rnd.choice([[], ["-E"], ["-N"], ["-H"], ["-E", "-x"]])
        cases.append(Case("file-mal-%s-%s" % (f, "".join(sel)),
                          [tool, "-f", p] + sel))
    cases.append(Case("file-missing", [tool, "-f", "/nonexistent/file"]))
    # -f with -c on a scratch copy
    for f in small_files[:6]:
        for sel in ([], ["-E"], ["-H", "-O"]):
            cases.append(Case("fileclean-%s-%s" % (f, "".join(sel)),
                              [tool, "-f", "{SCRATCH}/in/" + f, "-c"] + sel,
                              scratch_from=dirs["small"]))
    # id based look-ups (these bypass the hidden/non-serviceable exclusion)
    idsel = [[], ["-E"], ["-H"], ["-N"], ["-O"], ["-H", "-O"], ["-x"],
             ["-s", "-O", "-S", "Critical"], ["-t"], ["-S", "Symptom"]]
    for sel in idsel:
        s = "".join(sel)
        for eid in ["90000010", "0x90000011", "90000013", "0X90000015",
                    "90000099", "9000001", "90000050"]:
            cases.append(Case("id-%s-%s" % (eid, s),
                              [tool, "-p", dirs["small"], "-i", eid] + sel))
        for bid in ["100", "101", "103", "105", "999", "abc"]:
            cases.append(Case("bmcid-%s-%s" % (bid, s),
                              [tool, "-p", dirs["small"], "--bmc-id", bid] + sel))
        for plid in ["50000003", "0x50000010", "50000020", "5000002", "7FFFFFFF"]:
            cases.append(Case("plid-%s-%s" % (plid, s),
                              [tool, "-p", dirs["matrix"], "--plid", plid] + sel,
                              extra_path=regs["good"]))
        for src in ["BD8D5678", "BC8A", "BD", "ZZ", "B" * 33]:
            cases.append(Case("src-%s-%s" % (src[:10], s),
                              [tool, "-p", dirs["matrix"], "--src", src] + sel,
                              extra_path=regs["good"]))
        for ex in ["exclude.txt", "exclude2.txt", "missing.txt"]:
            cases.append(Case("srcex-%s-%s" % (ex, s),
                              [tool, "-p", dirs["matrix"], "--src-exclude",
                               os.path.join(work, ex)] + sel))
    cases.append(Case("bmcid-malformed",
                      [tool, "-p", dirs["malformed"], "--bmc-id", "1"]))
    cases.append(Case("plid-malformed",
                      [tool, "-p", dirs["malformed"], "--plid", "70000001"]))
    cases.append(Case("src-malformed",
                      [tool, "-p", dirs["malformed"], "--src", "BD8D"]))
    # JSON output / clean / delete (file system effects)
    for sel in ([], ["-E"], ["-N", "-H"], ["-H", "-O"], ["-S", "Critical", "-O"],
                ["-E", "-c"], ["-c"], ["-N", "-c", "-e", ".pel"], ["-t", "-c"]):
        s = "".join(sel)
        for src in ("small", "malformed"):
            cases.append(Case("json-%s-%s" % (src, s),
                              [tool, "-p", "{SCRATCH}/in", "-j"] + sel,
                              scratch_from=dirs[src]))
            cases.append(Case("json-o-%s-%s" % (src, s),
                              [tool, "-p", "{SCRATCH}/in", "-j", "-o",
                               "{SCRATCH}/out"] + sel,
                              scratch_from=dirs[src], mkdirs=["out"],
                              extra_path=regs["good"]))
    cases.append(Case("json-o-missing",
                      [tool, "-p", "{SCRATCH}/in", "-j", "-o", "{SCRATCH}/nope"],
                      scratch_from=dirs["small"]))
    for eid in ["90000010", "0x90000014", "12345678", "1234"]:
        cases.append(Case("delete-%s" % eid,
                          [tool, "-p", "{SCRATCH}/in", "-d", eid],
                          scratch_from=dirs["small"]))
    cases.append(Case("delete-all", [tool, "-p", "{SCRATCH}/in", "-D"],
                      scratch_from=dirs["small"]))

    names = [c.name for c in cases]
    assert len(names) == len(set(names)), "duplicate case names"

    def both(item):
        slot, case = item
        a = run_case(case, pristine, work, slot * 2)
        b = run_case(case, patched, work, slot * 2 + 1)
        return case, a, b

    ok = True
    nonempty = 0
    tracebacks = 0
    failures = 0
    with ThreadPoolExecutor(max_workers=min(16, (os.cpu_count() or 4))) as ex:
        for case, a, b in ex.map(both, list(enumerate(cases))):
            if a["stdout"].strip():
                nonempty += 1
            if "Traceback" in a["stderr"]:
                tracebacks += 1
            if a != b:
                ok = False
                failures += 1
                if failures <= 10:
                    print("=== DIFFERENCE in case %s: %s" % (case.name, case.argv))
                    for k in ("rc", "stdout", "stderr", "fs"):
                        if a[k] != b[k]:
                            print("--- %s pristine:" % k)
                            print(str(a[k])[:3000])
                            print("--- %s patched:" % k)
                            print(str(b[k])[:3000])
    print("cases=%d with-stdout=%d pristine-tracebacks=%d differing=%d" %
          (len(cases), nonempty, tracebacks, failures), file=sys.stderr)
    return ok, len(cases)


if __name__ == "__main__":
    main()
