#!/usr/bin/env python3
"""
Differential check for refactorings of modules/io_drawer/trace.py and
modules/io_drawer/dump.py.

Usage: diffcheck.py <pristine_root> <patched_root>

Runs an identical, deterministic driver against both source trees (each in its
own subprocess, with PYTHONPATH pointing at <root>/modules, with and without
`python -O`) and also runs the dump.py command line in several ways.  All
observable results (return values, raised exception types/messages, object
state after the call, caller-visible list state after an exception, stream
index, stdout, stderr, exit status) are compared.

Exit 0 and print "IDENTICAL (<n> cases)" if everything is identical, exit 1
otherwise.
"""

import json
import os
import random
import shutil
import subprocess
import sys
import tempfile

PY = sys.executable

DRIVER = r'''
import contextlib
import io
import json
import os
import random
import struct
import sys

import io_drawer.trace as T
import io_drawer.dump as D
from io_drawer.drawer_type import MEX_DRAWER_TYPE, NIMITZ_DRAWER_TYPE
from pel.datastream import DataStream
import udparsers.m2c00.m2c00 as M

WORK = sys.argv[1]
ROOT = sys.argv[2]
rnd = random.Random(20260210)
CASES = []


def norm(text):
    return text.replace(ROOT, '<ROOT>').replace(WORK, '<WORK>')


def ser(obj, depth=0):
    """Serializes arbitrary result objects in a deterministic way."""
    if depth > 6:
        return '<deep>'
    if obj is None or isinstance(obj, (bool, int, float)):
        return obj
    if isinstance(obj, str):
        return norm(obj)
    if isinstance(obj, memoryview):
        return {'mv': obj.tobytes().hex()}
    if isinstance(obj, (bytes, bytearray)):
        return {type(obj).__name__: bytes(obj).hex()}
    if isinstance(obj, tuple):
        return {'tuple': [ser(x, depth + 1) for x in obj]}
    if isinstance(obj, list):
        return [ser(x, depth + 1) for x in obj]
    if isinstance(obj, dict):
        return {str(k): ser(v, depth + 1) for k, v in obj.items()}
    if isinstance(obj, (T.TraceString, T.TraceBufferHeader, T.TraceEntry,
                        T.TraceBuffer, T.TraceStringFile)):
        return {'obj': type(obj).__name__,
                'vars': {k: ser(v, depth + 1)
                         for k, v in sorted(vars(obj).items())}}
    if isinstance(obj, DataStream):
        return {'stream_index': obj.index, 'stream_size': obj.size}
    return {'repr': norm(repr(obj))}


def run(label, func, *observed):
    """Runs func, records result/exception plus state of observed objects."""
    out = io.StringIO()
    err = io.StringIO()
    rec = {'case': label}
    try:
        with contextlib.redirect_stdout(out), contextlib.redirect_stderr(err):
            rec['result'] = ser(func())
    except SystemExit as e:
        rec['exit'] = ser(e.code)
    except BaseException as e:
        rec['exc'] = [type(e).__name__, norm(str(e))]
    rec['stdout'] = norm(out.getvalue())
    rec['stderr'] = norm(err.getvalue())
    rec['observed'] = [ser(o) for o in observed]
    CASES.append(rec)


def write_file(name, lines, newline=True):
    path = os.path.join(WORK, name)
    with open(path, 'w') as f:
        for line in lines:
            f.write(line)
            if newline:
                f.write('\n')
    return path


# ---------------------------------------------------------------------------
# Builders for binary data
# ---------------------------------------------------------------------------

def header(comp=b'FANS', size=32, ver=2, hdr_len=32, time_flg=1,
           endian_flg=0x42, wrap=0, next_free=0, rsvd=b'\0\0\0\0'):
    comp = comp[:12].ljust(12, b'\0') if len(comp) < 12 else comp[:12]
    return (bytes([ver, hdr_len, time_flg, endian_flg]) + comp + rsvd +
            struct.pack('>III', size & 0xFFFFFFFF, wrap & 0xFFFFFFFF,
                        next_free & 0xFFFFFFFF))


def entry(tbh=0x8ADF, tbl=0x0186, tag=0x4654, hash_value=32413714, line=324,
          data=b'', length=None, pad=None, entry_size=None):
    if length is None:
        length = len(data)
    if pad is None:
        pad = (4 - (len(data) % 4)) % 4
    body = (struct.pack('>HHHHII', tbh, tbl, length & 0xFFFF, tag,
                        hash_value & 0xFFFFFFFF, line & 0xFFFFFFFF) +
            data + b'\0' * pad)
    if entry_size is None:
        entry_size = len(body) + 4
    return body + struct.pack('>I', entry_size & 0xFFFFFFFF)


def rbytes(n):
    return bytes(rnd.getrandbits(8) for _ in range(n))


STRING_LINES = [
    '#FSP_TRACE_v2|||Thu Sep 24 12:55:43 2020|||BUILD:Release',
    '276406914||Cmd Data: 0x%08X||cmds_util.cpp(2764)',
    '32413714||E> Dev 0x%x: Fail count = %d||adt7470_fan_ctl.cpp(324)',
    '  48602109  ||  I> no args here  ||  file.cpp(486)  ',
    '92602121||I> ADT7470: trace_level = %u||adt7470_fan_ctl.cpp(926)',
    '33302121||I> older build of trace_level = %u||adt7470_fan_ctl.cpp(333)',
    '44402121||I> another partial trace_level %u %u||other.cpp(444)',
    '5||%s||str.cpp(1)',
    '7||100%||percent.cpp(7)',
    '8||%d %d %d %d %d||five.cpp(8)',
    '9||%d %d %d %d %d %d||six.cpp(9)',
    '10||%c||char.cpp(10)',
    '11||a||b||c||d',
    '12||||',
    'notanumber||x||y',
    '13|x||y',
    '',
    '   ',
    '14||tail||loc.cpp(14)   trailing',
    '١٢||arabic digits||x',
    '15||%(name)s||map.cpp(15)',
    '16||%*d||star.cpp(16)',
]
SF_CUSTOM = write_file('custom_strings', STRING_LINES)
SF_NONL = write_file('nonl_strings', ['1||one||a.cpp(1)\n2||two||b.cpp(2)'],
                     newline=False)
SF_EMPTY = write_file('empty_strings', [])
SF_CRLF = write_file('crlf_strings', ['1||one||a.cpp(1)\r', '2||two||b(2)\r'])
SF_MISSING = os.path.join(WORK, 'does_not_exist')
SF_MEX = MEX_DRAWER_TYPE.get_trace_string_file_path()
SF_NIM = NIMITZ_DRAWER_TYPE.get_trace_string_file_path()
STRING_FILES = [SF_CUSTOM, SF_NONL, SF_EMPTY, SF_CRLF, SF_MEX, SF_NIM]

HF_MEX = MEX_DRAWER_TYPE.get_header_file_path()
HF_NIM = NIMITZ_DRAWER_TYPE.get_header_file_path()
HF_CUSTOM = write_file('custom_pte.h', [
    'struct pte_entry_struct static_pte_entry_table[PTE_TABLE_SIZE] = ',
    '{',
    '  { "0101****", "Fan presence 0x%02X, flash = %c", {4, 3}, "fan.cpp", 530 },',
    '  { ""        , "The End" }',
    '};'])
HF_MISSING = os.path.join(WORK, 'no_such_header.h')


def real_hashes(path, count):
    hashes = []
    with open(path) as f:
        for line in f:
            parts = line.split('||')
            if len(parts) == 3 and parts[0].strip().isdigit():
                hashes.append(int(parts[0]))
    rnd.shuffle(hashes)
    return hashes[:count]


MEX_HASHES = real_hashes(SF_MEX, 40)
NIM_HASHES = real_hashes(SF_NIM, 40)

# ---------------------------------------------------------------------------
# A. TraceString
# ---------------------------------------------------------------------------
FORMATS = ['plain', 'v=%d', '0x%x %d', '%c', '%s', '100%', '%d %d %d %d %d',
           '%(a)s', '%*d', '%08X|%.4X', '%%', '%u%u', '']
ARGS = [(), (1,), (1, 2), (65,), (0x110000,), (1, 2, 3, 4, 5), (1, 2, 3, 4, 5, 6),
        5, 'abc', None, [1], {'a': 1}, (None,), ('x',), (-1,), (2 ** 40,)]
for fi, fmt in enumerate(FORMATS):
    ts = T.TraceString(12345678, fmt, 'loc.cpp(1)')
    for ai, a in enumerate(ARGS):
        run(f'A.get_message.{fi}.{ai}', lambda: ts.get_message(a), ts)
for hv in [0, 5, 100005, 12345678, 99945678, 12345679, 45678, -54322, 12345678.0,
           None, '12345678', 2 ** 40 + 45678]:
    for own in [12345678, 45678, 0, 100000]:
        ts = T.TraceString(own, 'm', 'l')
        run(f'A.is_match.{own}.{hv!r}', lambda: ts.is_match(hv), ts)
        run(f'A.is_partial.{own}.{hv!r}', lambda: ts.is_partial_match(hv), ts)

# ---------------------------------------------------------------------------
# B. TraceStringFile
# ---------------------------------------------------------------------------
for si, sf in enumerate(STRING_FILES + [SF_MISSING, WORK]):
    holder = []

    def make():
        f = T.TraceStringFile(sf)
        holder.append(f)
        return f
    run(f'B.ctor.{si}', make)
    if not holder:
        continue
    f = holder[0]
    probes = [0, 1, 2, 5, 7, 32413714, 32513714, 92602121, 2121, 102121,
              99902121, 276406914, 48602109, 13714, -1, 2 ** 33, 3.0, None, 'x']
    if sf == SF_MEX:
        probes += MEX_HASHES[:15] + [h + 100000 for h in MEX_HASHES[:15]]
    if sf == SF_NIM:
        probes += NIM_HASHES[:15] + [h + 300000 for h in NIM_HASHES[:15]]
    for p in probes:
        run(f'B.get.{si}.{p!r}', lambda: f.get_trace_string(p))
    for ti, tup in enumerate([
            ('1', 'm', 'l'), (' 22 ', ' m ', ' l '), ('1', 'm'), (), ('1', 'm', 'l', 'x'),
            ('abc', 'm', 'l'), ('abc', None, 'l'), (None, 'm', 'l'), ('3', None, 'l'),
            ('3', 'm', None), ['4', 'mm', 'll'], ('', 'm', 'l'), ('-7', 'm', 'l'),
            ('0x10', 'm', 'l'), (5, 'm', 'l'), 'abc', None]):
        run(f'B.add.{si}.{ti}', lambda: f._add_trace_string(tup), f.trace_strings[-3:],
            len(f.trace_strings))
    # Repeated lookups after mutation of the list
    for p in [1, 22, 100001, 4]:
        run(f'B.get2.{si}.{p!r}', lambda: f.get_trace_string(p))
run('B.LINE_RE', lambda: T.TraceStringFile.LINE_RE.pattern)

# ---------------------------------------------------------------------------
# C. TraceBufferHeader
# ---------------------------------------------------------------------------
def stream_variants(data):
    yield 'big', DataStream(memoryview(data), byte_order='big', is_signed=False)
    yield 'little', DataStream(memoryview(data), byte_order='little', is_signed=False)
    yield 'signed', DataStream(memoryview(data), byte_order='big', is_signed=True)
    yield 'none', DataStream(memoryview(data))
    yield 'bytes', DataStream(data, byte_order='big', is_signed=False)
    s = DataStream(memoryview(b'\xAA\xBB\xCC' + data), byte_order='big', is_signed=False)
    s.inc_index(3)
    yield 'offset', s


HEADER_DATA = [
    header(), header(b'IICS', 60, wrap=254, next_free=61),
    header(b'POWR        '), header(b'ERRL\0\0  \0\0  '), header(b'  X  \0 \0'),
    header(b'\xff\xfeAB\x80CD'), header(b'', 0), header(b'INFO', 0xFFFFFFFF, 255, 255, 255, 255,
                                                      0xFFFFFFFF, 0x80000000, b'\x01\x02\x03\x04'),
    header(b'ABCDEFGHIJKL', 33) + b'extra bytes follow',
]
for n in list(range(0, 36)) + [40, 64]:
    HEADER_DATA.append(rbytes(n))
for n in [0, 1, 4, 16, 31]:
    HEADER_DATA.append(header(b'FANS', 100)[:n])
for di, data in enumerate(HEADER_DATA):
    for name, stream in stream_variants(data):
        h = T.TraceBufferHeader()
        run(f'C.header.{di}.{name}', lambda: h.read(stream), h, stream)
        # second read on the same objects (repeated decode)
        run(f'C.header2.{di}.{name}', lambda: h.read(stream), h, stream)
run('C.const', lambda: (T.TraceBufferHeader.SIZE, list(T.TraceBufferHeader.BUFFER_NAMES)))
run('C.init', lambda: T.TraceBufferHeader())

# ---------------------------------------------------------------------------
# D. TraceEntry
# ---------------------------------------------------------------------------
ENTRY_DATA = []
for n in list(range(0, 22)) + [63, 64, 65, 1021, 1022, 1023, 1024]:
    ENTRY_DATA.append(entry(data=rbytes(n)))
    ENTRY_DATA.append(entry(data=rbytes(n), tag=0x4644))
ENTRY_DATA += [
    entry(data=rbytes(1025)), entry(data=rbytes(8), length=1025), entry(data=rbytes(8), length=0xFFFF),
    entry(data=rbytes(8), length=0x8000), entry(data=rbytes(8), length=0xFFFC),
    entry(data=rbytes(8), length=4), entry(data=rbytes(8), length=12),
    entry(data=rbytes(8), length=7), entry(data=rbytes(8), length=9),
    entry(data=rbytes(5), pad=0), entry(data=rbytes(5), pad=1), entry(data=rbytes(5), pad=2),
    entry(data=rbytes(5), pad=4), entry(data=rbytes(4), pad=4),
    entry(data=b'', entry_size=0), entry(data=b'', entry_size=19), entry(data=b'', entry_size=21),
    entry(data=rbytes(6), entry_size=28), entry(data=rbytes(6), entry_size=27),
    entry(data=rbytes(6), entry_size=0xFFFFFFFF), entry(data=rbytes(6), entry_size=0x80000000 + 28),
    entry(tbh=0xFFFF, tbl=0xFFFF, tag=0xFFFF, hash_value=0xFFFFFFFF, line=0xFFFFFFFF, data=b'\xff' * 4),
    entry(tbh=0, tbl=0, tag=0, hash_value=0, line=0),
    entry(data=rbytes(3)) + entry(data=rbytes(2)),
]
full = entry(data=rbytes(7), tag=0x4644)
for n in range(len(full)):
    ENTRY_DATA.append(full[:n])
full = entry(data=rbytes(12))
for n in range(len(full)):
    ENTRY_DATA.append(full[:n])
for n in list(range(0, 40, 3)) + [100]:
    ENTRY_DATA.append(rbytes(n))
for k in range(40):
    e = bytearray(entry(data=rbytes(rnd.randrange(0, 20)), tag=rnd.choice([0x4654, 0x4644])))
    for _ in range(rnd.randrange(1, 3)):
        e[rnd.randrange(len(e))] = rnd.getrandbits(8)
    ENTRY_DATA.append(bytes(e))
for di, data in enumerate(ENTRY_DATA):
    for name, stream in stream_variants(data):
        if name in ('none', 'bytes', 'little', 'signed') and di % 3:
            continue
        e = T.TraceEntry()
        run(f'D.entry.{di}.{name}', lambda: e.read(stream), e, stream)
        run(f'D.args.{di}.{name}', lambda: e.get_args(), e)
        run(f'D.isbin.{di}.{name}', lambda: e.is_binary_trace())
        run(f'D.entry2.{di}.{name}', lambda: e.read(stream), e, stream)
ARG_DATA = [None, b'', b'\x01', b'\x01\x02\x03', b'\x00\x00\x00\x01', rbytes(5), rbytes(8), rbytes(19),
            rbytes(20), rbytes(21), rbytes(24), rbytes(1024), b'\xff' * 20]
for ai, d in enumerate(ARG_DATA):
    for tag in [None, 0x4654, 0x4644, 0, 0x4645]:
        for kind in ['mv', 'bytes', 'bytearray']:
            e = T.TraceEntry()
            e.tag = tag
            if d is None:
                e.data = None
            else:
                e.data = {'mv': memoryview, 'bytes': bytes, 'bytearray': bytearray}[kind](d)
            run(f'D.get_args.{ai}.{tag}.{kind}', lambda: e.get_args(), e)
            if d is None:
                break
run('D.const', lambda: (T.TraceEntry.FIXED_SIZE, T.TraceEntry.MAX_DATA_LEN, T.TraceEntry.TYPE_FIELDTRACE,
                        T.TraceEntry.TYPE_FIELDBIN, T.TraceEntry.MAX_ARGS))
run('D.init', lambda: T.TraceEntry())


class ShortArgsEntry(T.TraceEntry):
    MAX_ARGS = 2
    MAX_DATA_LEN = 8
    FIXED_SIZE = 16


for di, data in enumerate([entry(data=rbytes(20)), entry(data=rbytes(8)), entry(data=rbytes(9)),
                           entry(data=rbytes(12))]):
    e = ShortArgsEntry()
    stream = DataStream(memoryview(data), byte_order='big', is_signed=False)
    run(f'D.subclass.read.{di}', lambda: e.read(stream), e, stream)
    run(f'D.subclass.args.{di}', lambda: e.get_args(), e)

# ---------------------------------------------------------------------------
# E. TraceBuffer
# ---------------------------------------------------------------------------
def gen_entries(count, hashes):
    out = []
    for _ in range(count):
        kind = rnd.randrange(6)
        if kind == 0:
            out.append(entry(tbh=rnd.getrandbits(16), tbl=rnd.getrandbits(16), tag=0x4644,
                             hash_value=rnd.choice(hashes), line=rnd.randrange(5000),
                             data=rbytes(rnd.randrange(0, 40))))
        elif kind == 1:
            out.append(entry(tbh=rnd.getrandbits(16), tbl=rnd.getrandbits(16),
                             hash_value=rnd.getrandbits(32), line=rnd.getrandbits(32),
                             data=rbytes(4 * rnd.randrange(0, 7))))
        elif kind == 2:
            out.append(entry(tbh=rnd.getrandbits(16), tbl=rnd.getrandbits(16),
                             hash_value=rnd.choice(hashes) + 100000 * rnd.randrange(1, 5),
                             line=rnd.randrange(5000), data=rbytes(4 * rnd.randrange(0, 7))))
        else:
            out.append(entry(tbh=rnd.getrandbits(16), tbl=rnd.getrandbits(16),
                             hash_value=rnd.choice(hashes), line=rnd.randrange(100000),
                             data=rbytes(rnd.choice([0, 4, 8, 12, 16, 20, 24, 3, 7]))))
    return out


CUSTOM_HASHES = [276406914, 32413714, 48602109, 92602121, 33302121, 44402121, 5, 7, 8, 9, 10, 14, 15, 16, 1, 2]
BUFFERS = []
for name in [b'IICS', b'IICM', b'POWR', b'FANS', b'INFO', b'ERRL', b'OTHR']:
    for hashes in (CUSTOM_HASHES, MEX_HASHES, NIM_HASHES):
        ents = b''.join(gen_entries(rnd.randrange(0, 8), hashes))
        BUFFERS.append(header(name, 32 + len(ents), wrap=rnd.randrange(300),
                              next_free=32 + len(ents)) + ents)
ents = gen_entries(5, CUSTOM_HASHES)
joined = b''.join(ents)
BUFFERS += [
    header(b'FANS', 32) + joined,                       # size says no entries
    header(b'FANS', 0) + joined,
    header(b'FANS', 33) + joined,                       # size ends inside first entry
    header(b'FANS', 32 + len(ents[0])) + joined,        # only first entry
    header(b'FANS', 0xFFFFFFFF) + joined,               # size beyond data
    header(b'FANS', 32 + len(joined) + 50) + joined,
    header(b'FANS', 32 + len(joined)) + joined + rbytes(30),
    header(b'FANS', 32 + len(joined)) + ents[0] + rbytes(10) + joined,
    header(b'FANS', 32 + len(joined)) + ents[0] + entry(data=rbytes(4), entry_size=5) + ents[1],
]
base = header(b'POWR', 32 + len(joined)) + joined
for n in list(range(0, 80)) + list(range(80, len(base), 7)):
    BUFFERS.append(base[:n])
for k in range(60):
    b = bytearray(base)
    for _ in range(rnd.randrange(1, 4)):
        b[rnd.randrange(len(b))] = rnd.getrandbits(8)
    BUFFERS.append(bytes(b))
for n in [0, 1, 31, 32, 33, 48, 52, 100, 300]:
    BUFFERS.append(rbytes(n))
for bi, data in enumerate(BUFFERS):
    for name, stream in stream_variants(data):
        if name != 'big' and bi % 7:
            continue
        b = T.TraceBuffer()
        run(f'E.buffer.{bi}.{name}', lambda: b.read(stream), b, stream)
        if bi % 5 == 0:
            run(f'E.buffer2.{bi}.{name}', lambda: b.read(stream), b, stream)
run('E.init', lambda: T.TraceBuffer())

# ---------------------------------------------------------------------------
# F. _format_trace_entry
# ---------------------------------------------------------------------------
def make_entry(tbh, tbl, tag, hash_value, line, data, length=None):
    e = T.TraceEntry()
    e.tbh, e.tbl, e.tag, e.hash_value, e.line, e.data = tbh, tbl, tag, hash_value, line, data
    e.length = length
    return e


SFILES = {}
for sf in STRING_FILES:
    SFILES[sf] = T.TraceStringFile(sf)
FMT_ENTRIES = []
for hv in CUSTOM_HASHES + [123, 2121, 13714, 99902121, 132413714] + MEX_HASHES[:6] + NIM_HASHES[:6] + \
        [MEX_HASHES[0] + 100000, NIM_HASHES[0] + 200000]:
    for tag in (0x4654, 0x4644):
        for d in (b'', rbytes(4), rbytes(8), rbytes(20), rbytes(23), None):
            FMT_ENTRIES.append(make_entry(rnd.getrandbits(16), rnd.getrandbits(16), tag, hv,
                                          rnd.randrange(100000),
                                          None if d is None else memoryview(d)))
FMT_ENTRIES += [
    make_entry(None, 1, 0x4654, 5, 1, memoryview(b'')),
    make_entry(1, None, 0x4654, 5, 1, memoryview(b'abcd')),
    make_entry(1, 1, 0x4654, 5, None, memoryview(b'abcd')),
    make_entry(1, 1, 0x4654, None, 1, memoryview(b'abcd')),
    make_entry(1, 1, None, 5, 1, memoryview(b'abcd')),
    make_entry(1, None, 0x4644, 123, 1, memoryview(b'abcd')),
    make_entry(1, 1, 0x4644, 2121, None, memoryview(b'abcd')),
    make_entry(0xFFFF, 0xFFFFF, 0x4654, 7, 123456, memoryview(b'abcd')),
    make_entry(-1, -1, 0x4654, 7, -5, b'abcd'),
    make_entry(1.5, 1, 0x4654, 7, 5, b'abcd'),
    make_entry(1, 1.5, 0x4654, 7, 5, b'abcd'),
    make_entry(1, 1, 0x4654, 7, 5.5, b'abcd'),
    make_entry(1, 1, 0x4654, 7, 5, 'a string'),
    make_entry(1, 1, 0x4644, 7, 5, 'a string'),
    make_entry(1, 1, 0x4654, 'x', 5, b'abcd'),
    T.TraceEntry(),
]
for ei, e in enumerate(FMT_ENTRIES):
    for si, sf in enumerate(STRING_FILES):
        if si not in (0, 2) and ei % 4:
            continue
        lines = ['pre-existing'] if ei % 2 else []
        run(f'F.format.{ei}.{si}', lambda: T._format_trace_entry(e, SFILES[sf], lines), lines)
run('F.badfile', lambda: T._format_trace_entry(FMT_ENTRIES[0], None, []))
run('F.badlines', lambda: T._format_trace_entry(FMT_ENTRIES[0], SFILES[SF_CUSTOM], None))
run('F.tuplelines', lambda: T._format_trace_entry(FMT_ENTRIES[0], SFILES[SF_CUSTOM], ()))

# ---------------------------------------------------------------------------
# G. parse_trace_data
# ---------------------------------------------------------------------------
for bi, data in enumerate(BUFFERS):
    for si, sf in enumerate(STRING_FILES + [SF_MISSING]):
        if si != bi % 3 and (bi + si) % 5:
            continue
        kinds = ['mv'] if bi % 6 else ['mv', 'bytes', 'bytearray']
        for kind in kinds:
            d = {'mv': memoryview, 'bytes': bytes, 'bytearray': bytearray}[kind](data)
            run(f'G.parse.{bi}.{si}.{kind}', lambda: T.parse_trace_data(d, sf))
run('G.none', lambda: T.parse_trace_data(None, SF_CUSTOM))
run('G.nonefile', lambda: T.parse_trace_data(memoryview(BUFFERS[0]), None))
run('G.str', lambda: T.parse_trace_data('text', SF_CUSTOM))
# repeated decodes of the same data must give the same answer
for rep in range(3):
    run(f'G.repeat.{rep}', lambda: T.parse_trace_data(memoryview(BUFFERS[3]), SF_CUSTOM))

# ---------------------------------------------------------------------------
# H. dump module
# ---------------------------------------------------------------------------
run('H.names', lambda: D._get_drawer_type_names())
for n in ['mex', 'nimitz', 'MEX', '', None, 'other', 5]:
    run(f'H.type.{n!r}', lambda: (lambda t: None if t is None else t.name)(D._get_drawer_type(n)))
run('H.consts', lambda: (D.TRACE_BUFFER_HEADER_START, list(D.HEX_DUMP_LINE_FORMATS), D.DIVIDER_LINE))

ILOGS = [b'', b'\x8A\xDF\x0F\x19\x01\x00\x00\xDE', b'\x8D\xE3\xDF\xA0\x01\x01\x44\xEF' * 3,
         rbytes(8), rbytes(16), rbytes(13), rbytes(64), b'\x00' * 24, b'\xff' * 16, rbytes(3)]
for ii, il in enumerate(ILOGS):
    for hi, hf in enumerate([HF_MEX, HF_NIM, HF_CUSTOM, HF_MISSING]):
        lines = ['before'] if ii % 2 else []
        run(f'H.fmt_ilog.{ii}.{hi}', lambda: D._format_ilog_data(memoryview(il), lines, hf), lines)
for bi, data in enumerate(BUFFERS[:40] + BUFFERS[-12:]):
    for si, sf in enumerate([SF_CUSTOM, SF_MEX, SF_MISSING]):
        if si != bi % 3 and bi % 4:
            continue
        lines = ['before'] if bi % 2 else []
        run(f'H.fmt_trace.{bi}.{si}', lambda: D._format_trace_data(memoryview(data), lines, sf), lines)
run('H.fmt_ilog.badlines', lambda: D._format_ilog_data(memoryview(ILOGS[1]), None, HF_MEX))
run('H.fmt_trace.badlines', lambda: D._format_trace_data(memoryview(BUFFERS[0]), None, SF_MEX))
run('H.fmt_ilog.baddata', lambda: D._format_ilog_data(None, [], HF_MEX))
run('H.fmt_trace.baddata', lambda: D._format_trace_data(None, [], SF_MEX))

GOOD_BUFFERS = BUFFERS[:21]
DUMPS = [b'', ILOGS[1], ILOGS[2], rbytes(40)]
for k in range(60):
    il = rnd.choice(ILOGS)
    chosen = [rnd.choice(GOOD_BUFFERS) for _ in range(rnd.randrange(0, 5))]
    filler = rbytes(rnd.randrange(0, 9)) if k % 3 == 0 else b''
    DUMPS.append(il + filler.join(chosen) + (rbytes(rnd.randrange(0, 20)) if k % 4 == 0 else b''))
DUMPS += [
    GOOD_BUFFERS[0], GOOD_BUFFERS[3] + GOOD_BUFFERS[3],                     # no ilog / same name twice
    ILOGS[1] + b'\x02\x20\x01\x42FAN', ILOGS[1] + b'\x02\x20\x01\x42FANS',   # truncated header pattern
    ILOGS[1] + b'\x02\x20\x01\x42fans' + rbytes(40),
    ILOGS[1] + b'\x02\x20\x01\x42ERRL' + b'\x02\x20\x01\x42IICS' + b'\x02\x20\x01\x42INFO' + rbytes(60),
    b'\x02\x20\x01\x42IICM' + rbytes(28) + b'\x02\x20\x01\x42IICS' + rbytes(28),
    b'\x02\x20\x01\x42\x02\x20\x01\x42POWR' + rbytes(64),
    ILOGS[2] + GOOD_BUFFERS[9][:40], ILOGS[2] + GOOD_BUFFERS[9][:31],
]
for di, dump in enumerate(DUMPS):
    combos = [(HF_MEX, SF_MEX), (HF_NIM, SF_NIM), (HF_CUSTOM, SF_CUSTOM)]
    if di % 10 == 0:
        combos += [(HF_MISSING, SF_CUSTOM), (HF_CUSTOM, SF_MISSING)]
    for ci, (hf, sf) in enumerate(combos):
        run(f'H.dump_data.{di}.{ci}', lambda: D.parse_dump_data(memoryview(dump), hf, sf))
run('H.dump_data.bytes', lambda: D.parse_dump_data(DUMPS[5], HF_MEX, SF_MEX))
run('H.dump_data.bytearray', lambda: D.parse_dump_data(bytearray(DUMPS[5]), HF_MEX, SF_MEX))
run('H.dump_data.emptybytes', lambda: D.parse_dump_data(b'', HF_MEX, SF_MEX))
run('H.dump_data.none', lambda: D.parse_dump_data(None, HF_MEX, SF_MEX))
run('H.dump_data.str', lambda: D.parse_dump_data('abc', HF_MEX, SF_MEX))


def bmc_hexdump(data, upper=True, addr_digits=4):
    lines = []
    for i in range(0, len(data), 16):
        chunk = data[i:i + 16]
        hx = chunk.hex().upper() if upper else chunk.hex()
        words = ' '.join(hx[j:j + 8] for j in range(0, len(hx), 8))
        text = ''.join(chr(b) if 0x20 <= b < 0x7f else '.' for b in chunk)
        lines.append(f'{i:0{addr_digits}X}:  {words}  <{text}>')
    return lines


def prebmc_hexdump(data):
    lines = []
    for i in range(0, len(data), 16):
        chunk = data[i:i + 16]
        hx = ' '.join(f'{b:02X}' for b in chunk)
        text = ''.join(chr(b) if 0x20 <= b < 0x7f else '.' for b in chunk)
        lines.append(f'{hx} {text}')
    return lines


def default_hexdump(data):
    from pel.hexdump import hexdump
    return hexdump(memoryview(data))


DUMP_FILES = []
for di, dump in enumerate(DUMPS[:40] + DUMPS[-10:]):
    style = di % 5
    if style == 0:
        lines = bmc_hexdump(dump)
    elif style == 1:
        lines = prebmc_hexdump(dump)
    elif style == 2:
        lines = ['Some heading', ''] + bmc_hexdump(dump, upper=False) + ['', 'trailer']
    elif style == 3:
        lines = default_hexdump(dump)                       # matches neither format
    else:
        lines = prebmc_hexdump(dump[:32]) + bmc_hexdump(dump)   # mixed: first format wins
    DUMP_FILES.append(write_file(f'dump_{di}.txt', lines))
DUMP_FILES.append(write_file('dump_empty.txt', []))
DUMP_FILES.append(write_file('dump_garbage.txt', ['hello world', 'zz zz', '0000:  GGGGGGGG']))
DUMP_FILES.append(write_file('dump_5digit.txt', bmc_hexdump(DUMPS[6], addr_digits=5)))
DUMP_FILES.append(write_file('dump_partial.txt', bmc_hexdump(DUMPS[6])[:3] + ['0030:  0102']))
with open(os.path.join(WORK, 'dump_binary.bin'), 'wb') as bf:
    bf.write(bytes(range(256)) * 2)
DUMP_FILES.append(os.path.join(WORK, 'dump_binary.bin'))
DUMP_FILES.append(os.path.join(WORK, 'dump_missing.txt'))
DUMP_FILES.append(WORK)
for fi, path in enumerate(DUMP_FILES):
    combos = [(HF_MEX, SF_MEX), (HF_CUSTOM, SF_CUSTOM)]
    if fi % 9 == 0:
        combos += [(HF_MISSING, SF_MEX), (HF_MEX, SF_MISSING), (HF_NIM, SF_NIM)]
    for ci, (hf, sf) in enumerate(combos):
        run(f'H.dump_file.{fi}.{ci}', lambda: D.parse_dump_file(path, hf, sf))
run('H.dump_file.none', lambda: D.parse_dump_file(None, HF_MEX, SF_MEX))

ARGVS = [
    [], ['-h'], ['--help'], ['x.txt'], ['x.txt', '-t', 'mex'], ['x.txt', '-t', 'nimitz'],
    ['x.txt', '-t', 'bad'], ['x.txt', '--drawer-type', 'mex', '-d', 'hdr.h'],
    ['x.txt', '-t', 'mex', '-s', 'str'], ['-t', 'nimitz', '-d', 'h', '-s', 's', 'y.txt'],
    ['x.txt', '-t', 'mex', '-d', '', '-s', ''], ['x.txt', 'y.txt', '-t', 'mex'],
    ['-t', 'mex'], ['x.txt', '-t'], ['x.txt', '-t', 'mex', '--header-file=abc', '--string-file=def'],
    ['x.txt', '-t', 'mex', '-q'], ['x.txt', '-tmex'], ['x.txt', '--drawer=nimitz'],
]
for ai, argv in enumerate(ARGVS):
    def call():
        saved = sys.argv
        sys.argv = ['dump.py'] + argv
        try:
            return D.parse_args()
        finally:
            sys.argv = saved
    run(f'H.parse_args.{ai}', call)
MAIN_ARGVS = [[DUMP_FILES[0], '-t', 'mex'], [DUMP_FILES[1], '-t', 'nimitz'],
              [DUMP_FILES[2], '-t', 'mex', '-d', HF_CUSTOM, '-s', SF_CUSTOM],
              [DUMP_FILES[5], '-t', 'mex', '-d', HF_MISSING], [DUMP_FILES[5], '-t', 'mex', '-s', SF_MISSING],
              [os.path.join(WORK, 'dump_missing.txt'), '-t', 'mex'], [WORK, '-t', 'mex'],
              [os.path.join(WORK, 'dump_empty.txt'), '-t', 'mex'],
              [os.path.join(WORK, 'dump_binary.bin'), '-t', 'mex'], [DUMP_FILES[0]], []]
for ai, argv in enumerate(MAIN_ARGVS):
    def call():
        saved = sys.argv
        sys.argv = ['dump.py'] + argv
        try:
            return D.main()
        finally:
            sys.argv = saved
    run(f'H.main.{ai}', call)


class BrokenOut(io.StringIO):
    def write(self, s):
        raise BrokenPipeError('broken pipe for test')


def main_broken_stdout():
    saved = sys.argv
    sys.argv = ['dump.py', DUMP_FILES[0], '-t', 'mex']
    try:
        with contextlib.redirect_stdout(BrokenOut()):
            return D.main()
    finally:
        sys.argv = saved


run('H.main.broken_stdout', main_broken_stdout)

# ---------------------------------------------------------------------------
# I. m2c00 user data parser (uses parse_trace_data)
# ---------------------------------------------------------------------------
for bi, data in enumerate(BUFFERS[:30] + BUFFERS[-15:] + [b'']):
    for sub_type in (84, 73, 72, 1):
        for version in (1, 2, 3):
            if (bi + sub_type + version) % 4:
                continue
            run(f'I.m2c00.{bi}.{sub_type}.{version}',
                lambda: M.parseUDToJson(sub_type, version, memoryview(data)))

json.dump(CASES, sys.stdout)
'''


def run_driver(root, workdir, optimize):
    """Runs the driver against the given source tree; returns list of cases."""
    driver_path = os.path.join(workdir, 'driver.py')
    with open(driver_path, 'w') as f:
        f.write(DRIVER)
    scratch = os.path.join(workdir, 'scratch')
    if os.path.isdir(scratch):
        shutil.rmtree(scratch)
    os.mkdir(scratch)
    env = dict(os.environ)
    env['PYTHONPATH'] = os.path.join(root, 'modules')
    env['PYTHONDONTWRITEBYTECODE'] = '1'
    env['PYTHONHASHSEED'] = '0'
    env['COLUMNS'] = '80'
    cmd = [PY] + (['-O'] if optimize else []) + [driver_path, scratch, root]
    proc = subprocess.run(cmd, env=env, cwd=scratch, capture_output=True,
                          text=True, timeout=1800)
    if proc.returncode != 0:
        print(f'driver failed for {root} (optimize={optimize}):\n'
              f'{proc.stderr[-4000:]}', file=sys.stderr)
        sys.exit(2)
    cases = json.loads(proc.stdout)
    files = sorted(os.listdir(scratch))
    cases.append({'case': 'files-left-behind', 'files': files})
    return cases


def cli_cases(root, workdir):
    """Runs the dump.py CLI in several ways; returns list of result records."""
    scratch = os.path.join(workdir, 'cli')
    if os.path.isdir(scratch):
        shutil.rmtree(scratch)
    os.mkdir(scratch)
    rnd = random.Random(77)

    hdr = (b'\x02\x20\x01\x42' + b'FANS'.ljust(12, b' ') + b'\0' * 4 +
           (32 + 28).to_bytes(4, 'big') + (7).to_bytes(4, 'big') +
           (60).to_bytes(4, 'big'))
    ent = (b'\x8A\xDF\x01\x86\x00\x08\x46\x54' + (32413714).to_bytes(4, 'big') +
           (324).to_bytes(4, 'big') + b'\x00\x00\xFA\x04\x00\x00\xBE\xEF' +
           (28).to_bytes(4, 'big'))
    dump = b'\x8A\xDF\x0F\x19\x01\x00\x00\xDE' + hdr + ent

    def bmc(data):
        out = []
        for i in range(0, len(data), 16):
            chunk = data[i:i + 16]
            hx = chunk.hex().upper()
            words = ' '.join(hx[j:j + 8] for j in range(0, len(hx), 8))
            text = ''.join(chr(b) if 0x20 <= b < 0x7f else '.' for b in chunk)
            out.append(f'{i:04X}:  {words}  <{text}>')
        return out

    def prebmc(data):
        out = []
        for i in range(0, len(data), 16):
            chunk = data[i:i + 16]
            text = ''.join(chr(b) if 0x20 <= b < 0x7f else '.' for b in chunk)
            out.append(' '.join(f'{b:02X}' for b in chunk) + ' ' + text)
        return out

    def wr(name, lines):
        path = os.path.join(scratch, name)
        with open(path, 'w') as f:
            f.write('\n'.join(lines) + ('\n' if lines else ''))
        return path

    good_bmc = wr('good_bmc.txt', bmc(dump))
    good_pre = wr('good_pre.txt', prebmc(dump))
    trunc = wr('trunc.txt', bmc(dump[:50]))
    corrupt = bytearray(dump)
    for _ in range(6):
        corrupt[rnd.randrange(len(corrupt))] = rnd.getrandbits(8)
    corrupt_f = wr('corrupt.txt', bmc(bytes(corrupt)))
    rand_f = wr('random.txt', bmc(bytes(rnd.getrandbits(8) for _ in range(200))))
    empty_f = wr('empty.txt', [])
    garbage_f = wr('garbage.txt', ['not a hex dump', '!!'])
    strings = wr('strings', ['32413714||E> Dev 0x%x: Fail count = %d||adt.cpp(324)'])
    missing = os.path.join(scratch, 'missing')

    argvs = [
        [], ['-h'], [good_bmc], [good_bmc, '-t', 'bogus'],
        [good_bmc, '-t', 'mex'], [good_bmc, '-t', 'nimitz'],
        [good_pre, '-t', 'mex'], [good_pre, '-t', 'mex', '-s', strings],
        [good_bmc, '-t', 'mex', '-s', strings], [good_bmc, '-t', 'mex', '-s', missing],
        [good_bmc, '-t', 'mex', '-d', missing], [trunc, '-t', 'mex', '-s', strings],
        [corrupt_f, '-t', 'mex', '-s', strings], [rand_f, '-t', 'nimitz'],
        [empty_f, '-t', 'mex'], [garbage_f, '-t', 'mex'], [missing, '-t', 'mex'],
        [scratch, '-t', 'mex'],
    ]
    env = dict(os.environ)
    env['PYTHONPATH'] = os.path.join(root, 'modules')
    env['PYTHONDONTWRITEBYTECODE'] = '1'
    env['COLUMNS'] = '80'
    script = os.path.join(root, 'modules', 'io_drawer', 'dump.py')
    results = []
    for ai, argv in enumerate(argvs):
        for mode in ('script', 'module', 'script-O'):
            if mode == 'script':
                cmd = [PY, script] + argv
            elif mode == 'module':
                cmd = [PY, '-m', 'io_drawer.dump'] + argv
            else:
                cmd = [PY, '-O', script] + argv
            proc = subprocess.run(cmd, env=env, cwd=scratch,
                                  capture_output=True, timeout=300)

            def norm(b):
                return b.decode('utf-8', 'replace').replace(root, '<ROOT>') \
                        .replace(workdir, '<WORK>')
            results.append({'case': f'CLI.{ai}.{mode}', 'rc': proc.returncode,
                            'stdout': norm(proc.stdout),
                            'stderr': norm(proc.stderr)})
    results.append({'case': 'CLI.files', 'files': sorted(os.listdir(scratch))})
    return results


def main():
    if len(sys.argv) != 3:
        print(__doc__, file=sys.stderr)
        sys.exit(2)
    pristine = os.path.abspath(sys.argv[1])
    patched = os.path.abspath(sys.argv[2])

    total = 0
    diffs = []
    with tempfile.TemporaryDirectory(prefix='diffcheck_R08_') as tmp:
        # The same work directory is used for both trees so that path names in
        # messages are the same length / sort order.
        def collect(root):
            out = []
            for optimize in (False, True):
                cases = run_driver(root, tmp, optimize)
                for c in cases:
                    c['case'] = ('O.' if optimize else 'N.') + c['case']
                out.extend(cases)
            out.extend(cli_cases(root, tmp))
            return out

        a = collect(pristine)
        b = collect(patched)

    if [c['case'] for c in a] != [c['case'] for c in b]:
        print('case lists differ')
        sys.exit(1)
    for ca, cb in zip(a, b):
        total += 1
        if ca != cb:
            diffs.append((ca, cb))

    if diffs:
        for ca, cb in diffs[:20]:
            print('DIFFERENCE in case', ca['case'])
            print('  pristine:', json.dumps(ca, sort_keys=True)[:1500])
            print('  patched :', json.dumps(cb, sort_keys=True)[:1500])
        print(f'DIFFERENT ({len(diffs)} of {total} cases)')
        sys.exit(1)
    print(f'IDENTICAL ({total} cases)')
    sys.exit(0)


if __name__ == '__main__':
    main()
