#!/usr/bin/env python3
"""
Differential check for refactorings of the PEL plug-ins and their data access
(modules/udparsers, modules/srcparsers, modules/calloutparsers,
modules/pel/hwdiags/parserdata.py).

Usage: diffcheck.py <pristine_root> <patched_root>

Both trees are copied to a scratch directory, the same set of hwdiags JSON data
files is dropped into pel/hwdiags/data of both copies, and then

  * an API level driver is run in a subprocess per tree (with and without -O)
    that calls every public and private entry point of the plug-ins on many
    well-formed, truncated, corrupted and random inputs and records the result
    (or the type and text of the exception) of each call, and
  * the peltool CLI is run on generated binary PELs with several option
    combinations (stdout, stderr, exit status and written files are compared).

Prints "IDENTICAL (<n> cases)" and exits 0 if everything matches, else exits 1.
"""

import json
import os
import random
import shutil
import struct
import subprocess
import sys
import tempfile

PY = sys.executable

###############################################################################
# hwdiags data files (same content for both trees, unique model_ec ids)

DATA_FILES = {
    'p10_20.json': {
        "model_ec": {"id": "20da0020", "type": "proc", "desc": "P10 2.0"},
        "attn_types": {"1": "CS", "2": "UCS", "3": "RE", "4": "SPA", "5": "HA"},
        "signatures": {
            "abcd": ["EQ_CORE_FIR", {"0": "bit zero", "5": "bit five",
                                     "255": "last bit"}],
            "0001": ["TP_LOCAL_FIR", {"1": "one"}],
            "ffff": ["X", {}],
        },
        "registers": {
            "abc123": ["EQ_CORE_FIR", {"0": "0x20028440", "1": "0x20028441",
                                       "255": "0xFFFFFFFF"}],
            "000001": ["A_VERY_LONG_REGISTER_NAME_THAT_IS_CROPPED_IN_OUTPUT",
                       {"0": "10"}],
            "0000ff": ["SHORT", {"7": "0x1"}],
        },
    },
    'explorer.json': {
        "model_ec": {"id": "160d2000", "type": "mem", "desc": "Explorer 2.0"},
        "attn_types": {"1": "CS"},
        "signatures": {"1234": ["OCMB_LFIR", {"10": "ten"}]},
        "registers": {"00aa00": ["OCMB_LFIR", {"0": "0x08040000"}]},
    },
    # deliberately odd shapes
    'odd1.json': {
        "model_ec": {"id": "0dd00001"},
        "signatures": {"abcd": {"1": {"5": "dict instead of list"}},
                       "0001": ["ONLY_NAME"],
                       "0002": [],
                       "0003": [["list", "name"], {"3": ["list", "desc"]}],
                       "0004": "string",
                       "0005": [None, None]},
        "registers": {"abc123": {"0": "x"},
                      "000001": ["BADADDR", {"0": "zz"}],
                      "000002": ["ONLY_NAME"],
                      "000003": [],
                      "000004": [["list"], {"0": "0x10"}],
                      "000005": ["INTADDR", {"0": 16}],
                      "000006": [12345, {"1": "0x22"}],
                      "000007": "str",
                      "000008": ["NULLMAP", None]},
    },
    'odd2.json': {
        "model_ec": {"id": "0dd00002", "type": ["t"], "desc": {"d": 1}},
        "attn_types": ["a", "b"],
        "signatures": [],
        "registers": "nope",
    },
    'odd3.json': {
        "model_ec": {"id": "0dd00003", "type": None, "desc": 5},
        "attn_types": {"1": None, "2": 2, "3": ["x"]},
    },
    # upper case id can never be matched (look-ups are lower case)
    'upper.json': {
        "model_ec": {"id": "ABCDEF01", "type": "UP", "desc": "upper"},
    },
}

###############################################################################
# API level driver (executed in a subprocess with PYTHONPATH=<tree>/modules)

DRIVER = r'''
import json, random, struct, sys, os, io, contextlib

results = []

def rec(label, fn, *args):
    buf_out, buf_err = io.StringIO(), io.StringIO()
    try:
        with contextlib.redirect_stdout(buf_out), \
                contextlib.redirect_stderr(buf_err):
            r = fn(*args)
        if isinstance(r, (dict, list, tuple, str, int, float, bool,
                          type(None))):
            try:
                val = ['ok', type(r).__name__, json.dumps(r, sort_keys=False)]
            except Exception:
                val = ['ok', type(r).__name__, repr(r)]
        else:
            val = ['ok', type(r).__name__, repr(r)]
    except BaseException as e:
        val = ['exc', type(e).__name__, str(e)]
    results.append([label, val, buf_out.getvalue(), buf_err.getvalue()])

rng = random.Random(20240611)

def mv(b):
    return memoryview(bytes(b))

# ---------------------------------------------------------------- parserdata
from pel.hwdiags.parserdata import ParserData
import pel.hwdiags.parserdata as pdmod

for rep in range(2):
    pd = ParserData()
    rec('pd.keys.%d' % rep, lambda: sorted(pd._data.keys()))

    model_ecs = ['20da0020', '20DA0020', '160d2000', '160D2000', '0dd00001',
                 '0DD00001', '0dd00002', '0dd00003', 'abcdef01', 'ABCDEF01',
                 '23ABcdEf', '00000000', 'ffffffff', '', '1234567', '123456789',
                 'zzzzzzzz', '20da002g', ' 20da0020', '20da0020\n', None, 5,
                 b'20da0020', 0x20da0020, ['20da0020'], 1.5]

    for m in model_ecs:
        rec('pd.query %r' % (m,), pd.query_model_ec, m)
        for at in [0, 1, 2, 3, 5, 6, 0x44, 255, 256, -1, '1', None, 1.0, True]:
            rec('pd.attn %r %r' % (m, at), pd.get_attn_desc, m, at)
        for node, chip in [(0, 0), (1, 2), (255, 65535), (256, 0), (0, 65536),
                           (-1, 0), (0, -1), ('1', 2), (1, '2'), (None, 1),
                           (1, None), (1.5, 2), (1, 2.5), (True, False)]:
            rec('pd.chip %r %r %r' % (m, node, chip), pd.get_chip_desc, m, node,
                chip)
        for sid in ['abcd', 'ABCD', 'AbCd', '0001', '0002', '0003', '0004',
                    '0005', 'ffff', '1234', '9999', '', 'abc', 'abcde', 'wxyz',
                    None, 7, b'abcd']:
            for inst, bit in [(0, 0), (1, 5), (255, 255), (0, 1), (3, 3),
                              (0, 10), (256, 0), (0, 256), (-1, 0), (0, -1),
                              ('0', 0), (0, '5'), (None, 0), (0, None),
                              (1.0, 5.0), (True, True)]:
                rec('pd.sig %r %r %r %r' % (m, sid, inst, bit),
                    pd.get_sig_desc, m, sid, inst, bit)
        for rid in ['abc123', 'ABC123', '000001', '000002', '000003', '000004',
                    '000005', '000006', '000007', '000008', '0000ff', '0000FF',
                    '00aa00', '999999', '', 'abc12', 'abc1234', 'uvwxyz', None,
                    9, b'abc123']:
            for inst in [0, 1, 7, 255, 256, -1, '0', None, 1.0, True]:
                rec('pd.reg %r %r %r' % (m, rid, inst), pd.get_reg_data, m,
                    rid, inst)

    words_a = ['20da0020', '20DA0020', '160d2000', '0dd00001', '0dd00002',
               '0dd00003', '11111111', 'zzzzzzzz', '', '1234', None, 3,
               b'20da0020', '20da00200']
    words_b = ['00000001', '00020102', 'ffffff03', '22223344', 'FFFFFFFF',
               '', '0000', 'zzzzzzzz', '0000zz00', '000000zz', 'zz000000',
               None, 4, b'00000001', '000000010', '0000 001', '+0000001',
               '0x000001', '00_00_01', '0000+1-1']
    words_c = ['abcd0000', 'ABCD0105', 'abcdffff', '00010001', '0002000a',
               '00030003', '00040000', '00050000', '12340a0a', '55556677',
               '', 'abcd', 'zzzzzzzz', 'abcdzz00', 'abcd00zz', None, 4,
               b'abcd0000', 'abcd00000', 'abcd 0 0', 'abcd+1-1']
    for a in words_a:
        for b in words_b:
            for c in words_c:
                rec('pd.signature %r %r %r' % (a, b, c), pd.get_signature,
                    a, b, c)
    for i in range(300):
        a = rng.choice(['20da0020', '160d2000', '0dd00001', '%08x' % rng.getrandbits(32)])
        b = '%08X' % rng.getrandbits(32)
        c = rng.choice(['abcd', '0001', '1234', '%04x' % rng.getrandbits(16)]) \
            + '%04x' % rng.getrandbits(16)
        rec('pd.signature.rnd %d' % i, pd.get_signature, a, b, c)

    for data, nb in [('ab', 1), ('AB', 1), ('abc', 1), ('a', 1), ('abcd', 2),
                     ('abcdef', 3), ('abcdef01', 4), ('abcdef0', 4), ('', 1),
                     ('ab', 0), ('ab', 5), ('ab', 2), (None, 1), (b'ab', 1),
                     ('ab\n', 1), ('0x', 1)]:
        rec('pd._check_hex %r %r' % (data, nb), pd._check_hex, data, nb)
    for data, nb in [(0, 1), (255, 1), (256, 1), (-1, 1), (65535, 2),
                     (65536, 2), (0, 0), (1, 0), (2**32 - 1, 4), (2**32, 4),
                     ('1', 1), (None, 1), (1.5, 1), (0, -1), (0, 1.5)]:
        rec('pd._check_int %r %r' % (data, nb), pd._check_int, data, nb)

# ------------------------------------------------------------ udparsers oe500
import udparsers.oe500.oe500 as ud_oe500

def sig_list(sigs, count=None):
    out = struct.pack('>I', len(sigs) if count is None else count)
    for a, b, c in sigs:
        out += bytes.fromhex(a) + bytes.fromhex(b) + bytes.fromhex(c)
    return out

def reg_dump(chips, count=None):
    out = struct.pack('>I', len(chips) if count is None else count)
    for model_ec, chip_pos, node_pos, regs, nregs in chips:
        out += bytes.fromhex(model_ec) + struct.pack('>HBI', chip_pos,
                                                     node_pos,
                                                     len(regs) if nregs is None
                                                     else nregs)
        for rid, inst, buf, size in regs:
            out += bytes.fromhex(rid) + struct.pack('>BB', inst,
                                                    len(buf) if size is None
                                                    else size) + buf
    return out

SIGS = [('20da0020', '00000001', 'abcd0000'),
        ('20da0020', '00020102', 'abcd0105'),
        ('160d2000', 'ffffff01', '12340a0a'),
        ('0dd00001', '00000001', '00010000'),
        ('11111111', '22223344', '55556677'),
        ('20da0020', '00000005', 'abcd00ff')]
SIGS_BAD = [('0dd00001', '00000001', '00020000'),
            ('0dd00002', '00000001', 'abcd0000'),
            ('0dd00001', '00000001', '00040000')]

CHIPS = [
    ('20da0020', 0, 0, [('abc123', 0, bytes(range(8)), None),
                        ('abc123', 1, b'\xde\xad\xbe\xef', None),
                        ('000001', 0, b'\x01', None),
                        ('0000ff', 7, bytes(range(16)), None),
                        ('999999', 3, b'\xaa\xbb\xcc', None)], None),
    ('160d2000', 65535, 255, [('00aa00', 0, b'\xff' * 8, None),
                              ('00aa00', 9, b'\x00' * 5, None)], None),
    ('12345678', 7, 1, [('010203', 4, bytes(range(255)), None)], None),
    ('20da0020', 3, 2, [], None),
]
CHIPS_BAD = [
    ('0dd00001', 1, 1, [('000001', 0, b'\x00\x01', None)], None),
    ('0dd00001', 1, 1, [('000004', 0, b'\x00\x01', None)], None),
    ('0dd00001', 1, 1, [('000006', 1, b'\x00\x01', None)], None),
    ('0dd00001', 1, 1, [('000002', 0, b'\x00\x01', None)], None),
    ('0dd00001', 1, 1, [('abc123', 0, b'\x00\x01', None)], None),
    ('0dd00002', 1, 1, [('abc123', 0, b'\x00\x01', None)], None),
    ('0dd00003', 1, 1, [('abc123', 0, b'\x00\x01', None)], None),
    ('20da0020', 1, 1, [('abc123', 0, b'', None)], None),
    ('20da0020', 1, 1, [('abc123', 0, b'\x01\x02', 4)], None),
    ('20da0020', 1, 1, [('abc123', 0, b'\x01\x02', None)], 3),
]

ud_inputs = []
wf = [
    (1, sig_list(SIGS)),
    (1, sig_list(SIGS[:1])),
    (1, sig_list([])),
    (1, sig_list(SIGS, count=2)),
    (1, sig_list(SIGS, count=7)),
    (1, sig_list(SIGS, count=0xffffffff)),
    (1, sig_list(SIGS) + b'\x00\x00trailing'),
    (2, reg_dump(CHIPS)),
    (2, reg_dump(CHIPS[:1])),
    (2, reg_dump([])),
    (2, reg_dump(CHIPS, count=2)),
    (2, reg_dump(CHIPS, count=9)),
    (2, reg_dump(CHIPS) + b'junk'),
    (3, json.dumps({"Callout List": [{"Priority": "H", "LocationCode": "P0"}],
                    "x": [1, 2.5, None, True]}).encode() + b'\0'),
    (3, b'[1, 2, 3]\0\0\0'),
    (3, b'"str"'),
    (3, b'null\0'),
    (3, b'{"a": "\xc3\xa9"}\0'),
    (3, b'{"a": 1} \0'),
    (3, b'\0{"a": 1}\0'),
    (3, b'{"a": 1}\0x'),
    (3, b'{bad json}\0'),
    (3, b'\xff\xfe\0'),
    (3, b'\0'),
    (3, b''),
    (3, b'{"a":NaN, "b": Infinity, "c": 1e400}'),
    (3, b'{"a": 1, "a": 2}'),
    (4, bytes(range(24))),
    (4, bytes(range(30))),
    (4, b'\xAB' * 24),
    (4, b'\x00' * 24),
    (4, bytes(range(8)) + bytes(range(8)) + bytes(range(8))),
    (5, bytes(range(8))),
    (5, b'\xFF' * 9),
    (5, b'\x00' * 8),
]
for s in SIGS_BAD:
    wf.append((1, sig_list([SIGS[0], s, SIGS[1]])))
for c in CHIPS_BAD:
    wf.append((2, reg_dump([CHIPS[0], c, CHIPS[1]])))
    wf.append((2, reg_dump([c])))
ud_inputs.extend(wf)

# every truncation of some well formed inputs
for st, d in [wf[0], wf[7], wf[13], wf[27], wf[32]]:
    step = 1 if len(d) < 120 else 3
    for n in range(0, len(d), step):
        ud_inputs.append((st, d[:n]))

# corruptions
for st, d in [wf[0], wf[7], wf[8], wf[13], wf[27], wf[32]]:
    for k in range(60):
        b = bytearray(d)
        if not b:
            continue
        for _ in range(rng.randint(1, 3)):
            b[rng.randrange(len(b))] = rng.getrandbits(8)
        ud_inputs.append((st, bytes(b)))

# random data
for k in range(150):
    n = rng.choice([0, 1, 3, 4, 5, 8, 11, 12, 15, 16, 17, 24, 40, 100])
    d = bytes(rng.getrandbits(8) for _ in range(n))
    if n >= 4 and rng.random() < 0.7:
        d = struct.pack('>I', rng.randint(0, 3)) + d[4:]
    for st in (1, 2, 3, 4, 5):
        ud_inputs.append((st, d))

# all subtypes incl. unsupported
for st in [0, 6, 7, 255, -1, None, '1', 1.0, True, 2.0, (1,)]:
    ud_inputs.append((st, wf[0][1]))
    ud_inputs.append((st, wf[7][1]))
    ud_inputs.append((st, b''))

for rep in range(2):
    for i, (st, d) in enumerate(ud_inputs):
        for ver in ((1,) if i % 7 else (0, 1, 2, 255)):
            rec('ud.oe500 %d.%d st=%r v=%r' % (rep, i, st, ver),
                ud_oe500.parseUDToJson, st, ver, mv(d))

# private entry points, non-memoryview inputs
for name in ['_parse_signature_list', '_parse_register_dump',
             '_parse_callout_ffdc', '_parse_hb_scratch_regs',
             '_parse_scratch_reg_sig', '_parse_default']:
    fn = getattr(ud_oe500, name)
    for d in [wf[0][1], wf[7][1], wf[13][1], wf[27][1], wf[32][1], b'', b'\0']:
        rec('ud.oe500.%s %d' % (name, len(d)), fn, 1, mv(d))
        rec('ud.oe500.%s bytes %d' % (name, len(d)), fn, 1, d)
        rec('ud.oe500.%s bytearray %d' % (name, len(d)), fn, 1, bytearray(d))
    rec('ud.oe500.%s None' % name, fn, 1, None)
    rec('ud.oe500.%s str' % name, fn, 1, 'abcdefgh' * 4)

# ------------------------------------------------------------ udparsers m2c00
import udparsers.m2c00.m2c00 as ud_m2c00

HLOG = b'\x00\xDE\xAD'
ILOG = b'\x8A\xDF\x0F\x19\x01\x00\x00\xDE'
TRACE = (b'\x02\x20\x01\x42\x49\x49\x43\x53' + b'\x00' * 12 +
         b'\x00\x00\x00\x20' + b'\x00\x00\x00\x00' + b'\x00\x00\x00\x20')
m_inputs = [b'', HLOG, ILOG, ILOG * 5, TRACE, TRACE + bytes(range(64)),
            b'\xde\xad\xbe\xef', bytes(range(256))]
for k in range(40):
    n = rng.choice([1, 2, 3, 7, 8, 9, 16, 31, 32, 33, 64, 200])
    m_inputs.append(bytes(rng.getrandbits(8) for _ in range(n)))
for k in range(20):
    b = bytearray(TRACE + bytes(rng.getrandbits(8) for _ in range(48)))
    b[rng.randrange(32)] = rng.getrandbits(8)
    m_inputs.append(bytes(b))
for n in range(0, len(TRACE), 3):
    m_inputs.append(TRACE[:n])

for rep in range(2):
    for i, d in enumerate(m_inputs):
        for st in [72, 73, 84, 85, 0, 1, -1, None, '72', 72.0, (72,)]:
            if st in (72, 73, 84, 85) and rep == 0:
                vers = [0, 1, 2, 3, None, '1', 1.0, True]
            elif st in (72, 73, 84, 85):
                vers = [1, 2, 3]
            else:
                vers = [1, 3] if i % 4 == 0 else [2]
            for ver in vers:
                rec('ud.m2c00 %d.%d st=%r v=%r' % (rep, i, st, ver),
                    ud_m2c00.parseUDToJson, st, ver, mv(d))
for i, d in enumerate(m_inputs[:12]):
    for name in ['_parse_hlog', '_parse_ilog', '_parse_trace',
                 '_parse_unsupported']:
        fn = getattr(ud_m2c00, name)
        for ver in [0, 1, 2, 3]:
            rec('ud.m2c00.%s %d v=%d' % (name, i, ver), fn, ver, mv(d))
            rec('ud.m2c00.%s %d v=%d bytes' % (name, i, ver), fn, ver, d)
        rec('ud.m2c00.%s %d None' % (name, i), fn, 1, None)
for v in [0, 1, 2, 3, -1, None, '1', 1.0, True, 2.0]:
    rec('ud.m2c00._get_drawer_type %r' % (v,),
        lambda v=v: ud_m2c00._get_drawer_type(v).name)
rec('ud.m2c00.consts', lambda: [ud_m2c00.SUB_TYPE_HLOG, ud_m2c00.SUB_TYPE_ILOG,
                                ud_m2c00.SUB_TYPE_TRACE])
# non memoryview / failing error path
for d in [None, 5, 'text', [1, 2], b'abc', bytearray(b'abc')]:
    for st in [72, 73, 84, 85]:
        rec('ud.m2c00 odd %r st=%d' % (d, st), ud_m2c00.parseUDToJson, st, 1, d)
        rec('ud.m2c00 odd %r st=%d v3' % (d, st), ud_m2c00.parseUDToJson, st,
            3, d)

# ------------------------------------------------------------------ srcparsers
import srcparsers.osrc.osrc as osrc
import srcparsers.oe500.oe500 as src_oe500

def cache_state():
    return sorted((k, v is None) for k, v in osrc.osrcParsers.items())

refcodes = ['BD8DE510', 'BD8DE500', 'BD8DE5FF', 'BD20e510', 'BD8DE510' + ' ' * 24,
            'BD8D3610', 'BD8DZZ10', 'BD8D..10', 'BC8A0501', 'BC10E510',
            'bc10e510', 'BD', '', 'BD8DE', 'BD8DE5', 'BD8DE51', '11002610',
            'BD8D  10', 'BD8Dpe10', 'BD8D/x10', 'BD8De5', 'BD8DPEL0',
            'BD8DIO_0', 'BCxx', 'B', 'C', 'BD8D\u00e95\u00e9510', None, 5,
            b'BD8DE510', ['B', 'D'], ('BC', 'x')]
wordsets = [
    ('00000000',) * 8,
    ('00000055', '00000010', '00000000', '00000000', '20DA0020', '00000001',
     'ABCD0000', '00000000'),
    ('00000055', '00000010', '00000000', '00000000', '20da0020', '00020102',
     'abcd0105', '00000000'),
    ('00000055', '00000010', '00000000', '00000000', '160D2000', 'FFFFFF01',
     '12340A0A', '00000000'),
    ('00000055', '00000010', '00000000', '00000000', '0DD00001', '00000001',
     '00020000', '00000000'),
    ('00000055', '00000010', '00000000', '00000000', '0DD00002', '00000001',
     'ABCD0000', '00000000'),
    ('', '', '', '', '', '', '', ''),
    ('0', '1', '2', '3', 'zzzzzzzz', '00000001', 'ABCD0000', '7'),
    ('0', '1', '2', '3', '20DA0020', 'zz', 'ABCD0000', '7'),
    ('0', '1', '2', '3', '20DA0020', '00000001', None, '7'),
]
for rep in range(3):
    for rc in refcodes:
        for ws in wordsets:
            rec('osrc %d %r %r' % (rep, rc, ws[4:7]), osrc.parseSRCToJson, rc,
                *ws)
            rec('osrc.cache', cache_state)
    for rc in refcodes:
        for ws in wordsets:
            rec('src.oe500 %d %r %r' % (rep, rc, ws[4:7]),
                src_oe500.parseSRCToJson, rc, *ws)
for i in range(200):
    rc = 'BD%02X%s%s' % (rng.getrandbits(8), rng.choice(['E5', 'e5', 'E5', '36']),
                         rng.choice(['10', '00', '11', '01']))
    ws = tuple('%08X' % rng.getrandbits(32) for _ in range(8))
    if rng.random() < 0.5:
        ws = ws[:4] + (rng.choice(['20DA0020', '160D2000', '0DD00001']),) + ws[5:]
    rec('osrc.rnd %d' % i, osrc.parseSRCToJson, rc, *ws)
rec('osrc.cache.final', cache_state)
# arity errors
rec('osrc.arity', osrc.parseSRCToJson, 'BD8DE510')
rec('src.oe500.arity', src_oe500.parseSRCToJson, 'BD8DE510')
rec('osrc.kw', lambda: osrc.parseSRCToJson(
    refcode='BD8DE510', word2='0', word3='0', word4='0', word5='0',
    word6='20DA0020', word7='00000001', word8='ABCD0000', word9='0'))
rec('src.oe500.kw', lambda: src_oe500.parseSRCToJson(
    refcode='BD8DE510', word2='0', word3='0', word4='0', word5='0',
    word6='20DA0020', word7='00000001', word8='ABCD0000', word9='0'))

# --------------------------------------------------------------- calloutparsers
import calloutparsers.ocallouts.ocallouts as ocallouts
for rep in range(2):
    for p in ['BMC0001', 'BMC0002', 'BMC0003', 'BMC0004', 'BMC0005', 'BMC0006',
              'BMC0007', 'BMC0008', 'BMC0009', 'BMC0000', 'bmc0001', 'BMC0001 ',
              '', 'BMC', None, 1, 1.5, b'BMC0001', ('BMC0001',), ['BMC0001'],
              {'a': 1}, True]:
        rec('ocallouts %r' % (p,), ocallouts.getMaintProcDesc, p)
rec('ocallouts.table', lambda: json.dumps(ocallouts.procedures))
rec('ocallouts.kw', lambda: ocallouts.getMaintProcDesc(procedure='BMC0002'))

json.dump(results, sys.stdout)
'''

###############################################################################
# PEL builders for the CLI level check


def section_header(sid: bytes, length: int, ver: int, subtype: int,
                   comp: int) -> bytes:
    return sid + struct.pack('>HBBH', length, ver, subtype, comp)


def private_header(creator: bytes, nsections: int, eid: int,
                   comp: int = 0xE500) -> bytes:
    ts = bytes.fromhex('2024061112304500')
    body = ts + ts + creator + b'\0\0' + bytes([nsections]) + \
        struct.pack('>IQII', 7, 0x1122334455667788, 0x50000000 | eid,
                    0x50000000 | eid)
    return section_header(b'PH', 48, 1, 0, comp) + body


def user_header(sev: int = 0x40, flags: int = 0xA000,
                comp: int = 0xE500) -> bytes:
    body = struct.pack('>BBBBIBBHI', 0x10, 0x03, sev, 0x00, 0, 0, 0, flags, 0)
    return section_header(b'UH', 24, 1, 0, comp) + body


def callout(proc: bytes, loc: bytes = b'U78DA.ND1\0\0\0') -> bytes:
    fru = b'ID' + bytes([12, 0x02]) + proc.ljust(8, b'\0')[:8]
    size = 4 + len(loc) + len(fru)
    return bytes([size, 0, ord('H'), len(loc)]) + loc + fru


def primary_src(ascii_str: str, words, callouts=None,
                comp: int = 0xE500, wordcount: int = 9) -> bytes:
    flags = 0x01 if callouts else 0x00
    cbody = b''
    if callouts:
        cos = b''.join(callouts)
        cbody = bytes([0xC0, 0]) + struct.pack('>H', (4 + len(cos)) // 4) + cos
    body = bytes([2, flags, 0, wordcount]) + struct.pack('>HH', 0, 72)
    body += b''.join(struct.pack('>I', w) for w in words)
    body += ascii_str.encode('latin-1').ljust(32, b' ')[:32]
    body += cbody
    return section_header(b'PS', 8 + len(body), 1, 1, comp) + body


def user_data(subtype: int, ver: int, comp: int, data: bytes) -> bytes:
    return section_header(b'UD', 8 + len(data), ver, subtype, comp) + data


def ext_user_data(creator: bytes, subtype: int, ver: int, comp: int,
                  data: bytes) -> bytes:
    return section_header(b'ED', 12 + len(data), ver, subtype, comp) + \
        creator + b'\0\0\0' + data


def build_pel(creator: bytes, eid: int, sections, sev: int = 0x40,
              flags: int = 0xA000) -> bytes:
    return private_header(creator, 2 + len(sections), eid) + \
        user_header(sev, flags) + b''.join(sections)


def sig_list(sigs, count=None):
    out = struct.pack('>I', len(sigs) if count is None else count)
    for a, b, c in sigs:
        out += bytes.fromhex(a + b + c)
    return out


def reg_dump(chips, count=None):
    out = struct.pack('>I', len(chips) if count is None else count)
    for model_ec, chip_pos, node_pos, regs in chips:
        out += bytes.fromhex(model_ec) + struct.pack('>HBI', chip_pos,
                                                     node_pos, len(regs))
        for rid, inst, buf in regs:
            out += bytes.fromhex(rid) + struct.pack('>BB', inst, len(buf)) + buf
    return out


def make_pels(pel_dir: str) -> list:
    rng = random.Random(77)
    sigs = [('20da0020', '00000001', 'abcd0000'),
            ('20da0020', '00020102', 'abcd0105'),
            ('160d2000', 'ffffff01', '12340a0a'),
            ('0dd00003', '00000003', 'abcd0000'),
            ('11111111', '22223344', '55556677')]
    sigs_bad = sigs + [('0dd00001', '00000001', '00010000')]
    chips = [('20da0020', 0, 0, [('abc123', 0, bytes(range(8))),
                                 ('abc123', 1, b'\xde\xad\xbe\xef'),
                                 ('000001', 0, b'\x01'),
                                 ('999999', 3, b'\xaa\xbb\xcc')]),
             ('160d2000', 65535, 255, [('00aa00', 0, b'\xff' * 8)]),
             ('12345678', 7, 1, [('010203', 4, bytes(range(40)))])]
    ffdc = json.dumps({"Callout List": [{"Priority": "H",
                                          "LocationCode": "P0"}]}).encode() \
        + b'\0'
    trace = (b'\x02\x20\x01\x42\x49\x49\x43\x53' + b'\x00' * 12 +
             b'\x00\x00\x00\x20' + b'\x00\x00\x00\x00' + b'\x00\x00\x00\x20')
    ilog = b'\x8A\xDF\x0F\x19\x01\x00\x00\xDE'

    words_ok = [0x55, 0x10, 0, 0, 0x20DA0020, 0x00020102, 0xABCD0105, 0]
    words_unknown = [0x55, 0x10, 0, 0, 0x11111111, 0x22223344, 0x55556677, 0]
    words_bad = [0x55, 0x10, 0, 0, 0x0DD00001, 0x00000001, 0x00020000, 0]

    def full_sections(words, ascii_str, proc=b'BMC0002'):
        return [
            primary_src(ascii_str, words, [callout(proc),
                                           callout(b'BMC0008'),
                                           callout(b'BMC9999')]),
            user_data(1, 1, 0xE500, sig_list(sigs)),
            user_data(2, 1, 0xE500, reg_dump(chips)),
            user_data(3, 1, 0xE500, ffdc),
            user_data(4, 1, 0xE500, bytes(range(24))),
            user_data(5, 1, 0xE500, bytes(range(8))),
            user_data(6, 1, 0xE500, b'unsupported'),
            ext_user_data(b'M', 72, 1, 0x2C00, b'\x00\xDE\xAD'),
            ext_user_data(b'M', 73, 2, 0x2C00, ilog * 3),
            ext_user_data(b'M', 84, 1, 0x2C00, trace),
            ext_user_data(b'M', 85, 1, 0x2C00, b'\xde\xad\xbe\xef'),
            ext_user_data(b'M', 73, 3, 0x2C00, ilog),
        ]

    pels = {}
    pels['00_checkstop.pel'] = build_pel(
        b'O', 1, full_sections(words_ok, 'BD8DE510'))
    pels['01_secondary.pel'] = build_pel(
        b'O', 2, full_sections(words_unknown, 'BD8DE500', b'BMC0001'))
    pels['02_badsig.pel'] = build_pel(
        b'O', 3, full_sections(words_bad, 'BD8DE510'))
    pels['03_hostboot_src.pel'] = build_pel(
        b'O', 4, [primary_src('BC8A0501', words_ok, [callout(b'BMC0003')])])
    pels['04_other_comp.pel'] = build_pel(
        b'O', 5, [primary_src('BD8D3610', words_ok, [callout(b'BMC0005')]),
                  user_data(1, 1, 0x3600, b'abcd')])
    pels['05_info.pel'] = build_pel(
        b'O', 6, [primary_src('BD8DE510', words_ok)], sev=0x00, flags=0x0000)
    pels['06_hidden.pel'] = build_pel(
        b'O', 7, [primary_src('BD8DE5FF', words_ok)], sev=0x40, flags=0x6000)
    # truncated / corrupt user data
    bad_sections = [primary_src('BD8DE510', words_ok, wordcount=5)]
    rd = reg_dump(chips)
    sl = sig_list(sigs)
    for n in (1, 3, 4, 10, 15, 16, 21, 40, len(rd) - 1):
        bad_sections.append(user_data(2, 1, 0xE500, rd[:n]))
    for n in (1, 2, 4, 9, 16, 17, len(sl) - 1):
        bad_sections.append(user_data(1, 1, 0xE500, sl[:n]))
    bad_sections.append(user_data(1, 1, 0xE500, sig_list(sigs_bad)))
    bad_sections.append(user_data(1, 1, 0xE500, sig_list(sigs, count=99)))
    bad_sections.append(user_data(2, 1, 0xE500, reg_dump(chips, count=99)))
    bad_sections.append(user_data(3, 1, 0xE500, b'{not json\0'))
    bad_sections.append(user_data(3, 1, 0xE500, b'\xff\xfe\0'))
    bad_sections.append(user_data(4, 1, 0xE500, bytes(range(23))))
    bad_sections.append(user_data(5, 1, 0xE500, bytes(range(7))))
    for st in (72, 73, 84, 85):
        bad_sections.append(ext_user_data(b'M', st, 1, 0x2C00, trace[:17]))
        bad_sections.append(ext_user_data(b'M', st, 9, 0x2C00, trace[:17]))
    pels['07_truncated_ud.pel'] = build_pel(b'O', 8, bad_sections)
    # random user data
    rnd_sections = [primary_src('BD8DE510', words_unknown)]
    for k in range(40):
        n = rng.choice([1, 4, 5, 11, 12, 16, 24, 60])
        d = bytes(rng.getrandbits(8) for _ in range(n))
        if n >= 4:
            d = struct.pack('>I', rng.randint(0, 2)) + d[4:]
        rnd_sections.append(user_data(rng.randint(0, 6), 1, 0xE500, d))
        rnd_sections.append(ext_user_data(b'M', rng.choice([72, 73, 84, 85]),
                                          rng.randint(0, 3), 0x2C00, d))
    pels['08_random_ud.pel'] = build_pel(b'O', 9, rnd_sections)
    # whole PEL truncated / corrupted
    base = pels['00_checkstop.pel']
    pels['09_truncated.pel'] = base[:len(base) - 37]
    pels['10_truncated_src.pel'] = base[:120]

    def corrupt(d: bytes) -> bytes:
        b = bytearray(d)
        for _ in range(rng.randint(1, 2)):
            b[rng.randrange(len(b))] = rng.getrandbits(8)
        return bytes(b)

    cor_sections = [primary_src('BD8DE510', words_bad)]
    for k in range(15):
        cor_sections.append(user_data(1, 1, 0xE500, corrupt(sl)))
        cor_sections.append(user_data(2, 1, 0xE500, corrupt(rd)))
        cor_sections.append(user_data(3, 1, 0xE500, corrupt(ffdc)))
        cor_sections.append(ext_user_data(b'M', 84, 1 + k % 2, 0x2C00,
                                          corrupt(trace + bytes(range(32)))))
        cor_sections.append(ext_user_data(b'M', 73, 1 + k % 2, 0x2C00,
                                          corrupt(ilog * 4)))
    pels['11_corrupt.pel'] = build_pel(b'O', 11, cor_sections)
    pels['12_garbage.pel'] = bytes(rng.getrandbits(8) for _ in range(200))
    pels['13_empty.pel'] = b''
    # a creator without plug-ins
    pels['14_hostboot.pel'] = build_pel(
        b'B', 10, [primary_src('BC8A0501', words_ok),
                   user_data(1, 1, 0x0500, b'abcd')])

    os.makedirs(pel_dir)
    for name, data in pels.items():
        with open(os.path.join(pel_dir, name), 'wb') as f:
            f.write(data)
    return sorted(pels)


###############################################################################


def prepare_tree(src_root: str, dst_root: str) -> None:
    shutil.copytree(os.path.join(src_root, 'modules'),
                    os.path.join(dst_root, 'modules'),
                    ignore=shutil.ignore_patterns('__pycache__', '*.pyc'))
    data_dir = os.path.join(dst_root, 'modules', 'pel', 'hwdiags', 'data')
    for name, content in DATA_FILES.items():
        with open(os.path.join(data_dir, name), 'w') as f:
            json.dump(content, f)
    # must be ignored by the loader
    with open(os.path.join(data_dir, '.hidden.json'), 'w') as f:
        f.write('this is not json')
    with open(os.path.join(data_dir, 'notes.txt'), 'w') as f:
        f.write('not a data file')


def run(cmd, root, cwd, extra_env=None):
    env = dict(os.environ)
    env['PYTHONPATH'] = os.path.join(root, 'modules')
    env['PYTHONDONTWRITEBYTECODE'] = '1'
    env['PYTHONHASHSEED'] = '0'
    if extra_env:
        env.update(extra_env)
    p = subprocess.run(cmd, cwd=cwd, env=env, stdout=subprocess.PIPE,
                       stderr=subprocess.PIPE, timeout=1200)
    return p.returncode, p.stdout, p.stderr


def snapshot_dir(path):
    snap = {}
    for dirpath, _, files in os.walk(path):
        for f in files:
            full = os.path.join(dirpath, f)
            with open(full, 'rb') as fd:
                snap[os.path.relpath(full, path)] = fd.read()
    return snap


def main() -> int:
    if len(sys.argv) != 3:
        print(__doc__)
        return 2
    roots = [os.path.abspath(sys.argv[1]), os.path.abspath(sys.argv[2])]
    scratch = tempfile.mkdtemp(prefix='diffcheck_', dir=os.path.dirname(
        os.path.abspath(__file__)))
    cases = 0
    diffs = []
    try:
        trees = []
        for tag, root in zip(('A', 'B'), roots):
            dst = os.path.join(scratch, 'tree' + tag)
            prepare_tree(root, dst)
            trees.append(dst)

        driver = os.path.join(scratch, 'driver.py')
        with open(driver, 'w') as f:
            f.write(DRIVER)

        # ---- API level
        for opt in ([], ['-O']):
            outs = []
            for tree in trees:
                rc, so, se = run([PY] + opt + [driver], tree, scratch)
                if rc != 0:
                    print('driver failed in', tree, opt, file=sys.stderr)
                    print(se.decode(errors='replace')[-3000:], file=sys.stderr)
                    return 1
                outs.append(json.loads(so))
            a, b = outs
            if len(a) != len(b):
                diffs.append('driver%s: number of results differ %d/%d' %
                             (opt, len(a), len(b)))
            for ra, rb in zip(a, b):
                cases += 1
                if ra != rb:
                    diffs.append('API%s %s:\n   A: %r\n   B: %r' %
                                 (opt, ra[0], ra[1:], rb[1:]))

        # ---- data directory without any data file (as shipped)
        for opt in ([], ['-O']):
            outs = []
            for root in roots:
                rc, so, se = run([PY] + opt + [driver], root, scratch)
                if rc != 0:
                    print('driver failed in', root, opt, file=sys.stderr)
                    print(se.decode(errors='replace')[-3000:], file=sys.stderr)
                    return 1
                outs.append(json.loads(so))
            a, b = outs
            if len(a) != len(b):
                diffs.append('driver-nodata%s: number of results differ' % opt)
            for ra, rb in zip(a, b):
                cases += 1
                if ra != rb:
                    diffs.append('API-nodata%s %s:\n   A: %r\n   B: %r' %
                                 (opt, ra[0], ra[1:], rb[1:]))

        # ---- CLI level
        pel_dir = os.path.join(scratch, 'pels')
        names = make_pels(pel_dir)
        cli_cases = []
        for n in names:
            f = os.path.join(pel_dir, n)
            cli_cases.append(['-f', f])
            cli_cases.append(['-f', f, '-P'])
        for n in names[:3]:
            cli_cases.append(['-f', os.path.join(pel_dir, n), '-x'])
        for extra in (['-a'], ['-a', '-E'], ['-a', '-E', '-r'], ['-a', '-P'],
                      ['-l'], ['-l', '-E'], ['-l', '-H', '-O'], ['-n', '-E'],
                      ['-a', '-N'], ['-a', '-S', 'Informational'],
                      ['-i', '50000001'], ['--bmc-id', '7'],
                      ['--src', 'BD8DE510'], ['--plid', '0x50000002'],
                      ['-a', '-E', '-e', '.pel'], ['-a', '-E', '-e', '.txt']):
            cli_cases.append(['-p', pel_dir] + extra)
        cli_cases.append(['-p', pel_dir, '-j', '-o', '@OUT@'])
        cli_cases.append(['-p', pel_dir, '-j', '-E', '-o', '@OUT@'])
        cli_cases.append(['-p', pel_dir, '-j', '-E', '-P', '-o', '@OUT@'])

        for opt in ([], ['-O']):
            for ci, args in enumerate(cli_cases):
                res = []
                for ti, tree in enumerate(trees):
                    outdir = os.path.join(scratch, 'out_%d_%d_%d' %
                                          (len(opt), ci, ti))
                    os.makedirs(outdir)
                    real = [a.replace('@OUT@', outdir) for a in args]
                    tool = os.path.join(tree, 'modules', 'pel', 'peltool',
                                        'peltool.py')
                    rc, so, se = run([PY] + opt + [tool] + real, tree, scratch)
                    so = so.replace(tree.encode(), b'<TREE>').replace(
                        outdir.encode(), b'<OUT>')
                    se = se.replace(tree.encode(), b'<TREE>').replace(
                        outdir.encode(), b'<OUT>')
                    res.append((rc, so, se, snapshot_dir(outdir),
                                sorted(os.listdir(pel_dir))))
                    shutil.rmtree(outdir)
                cases += 1
                if res[0] != res[1]:
                    diffs.append('CLI%s %s differs (rc %d/%d)' %
                                 (opt, ' '.join(args), res[0][0], res[1][0]))
    finally:
        shutil.rmtree(scratch, ignore_errors=True)

    if diffs:
        for d in diffs[:40]:
            print(d)
        print('DIFFERENT (%d differences in %d cases)' % (len(diffs), cases))
        return 1
    print('IDENTICAL (%d cases)' % cases)
    return 0


if __name__ == '__main__':
    sys.exit(main())
