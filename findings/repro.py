#!/usr/bin/env python3
"""Hand reproductions of the defects D1..D10 listed in DESIGN.md section 2.

Documentation only: no check command runs this.  Usage:
    /venv/bin/python /verif/findings/repro.py <repo-root> [D1 D2 ...]
prints one line per defect: "<Dn> MANIFESTS ..." or "<Dn> absent".
"""
import io
import json
import os
import subprocess
import sys
import tempfile
import contextlib

ROOT = os.path.abspath(sys.argv[1] if len(sys.argv) > 1 else "/repo")
sys.path.insert(0, os.path.join(ROOT, "modules"))
sys.path.insert(0, os.path.dirname(os.path.abspath(__file__)))
import pelbuild as pb  # noqa: E402

PY = sys.executable
ENV = dict(os.environ, PYTHONPATH=os.path.join(ROOT, "modules"))
PELTOOL = os.path.join(ROOT, "modules/pel/peltool/peltool.py")


def run(args, opt=False):
    cmd = [PY] + (["-O"] if opt else []) + [PELTOOL] + args
    return subprocess.run(cmd, env=ENV, capture_output=True, text=True)


def decode(data, **cfg):
    from pel.datastream import DataStream
    from pel.peltool.peltool import parsePEL
    from pel.peltool.config import Config
    c = Config()
    for k, v in cfg.items():
        setattr(c, k, v)
    c.every_pel = True
    eid, js = parsePEL(DataStream(data, byte_order="big", is_signed=False), c, False)
    return json.loads(js)


def d1():
    good = pb.pel([pb.src(), pb.ud(b'{"a": 1}\0\0\0\0')])
    with tempfile.TemporaryDirectory() as t:
        p = os.path.join(t, "x.pel")
        open(p, "wb").write(good[:60])
        r = run(["-f", p, "-E"], opt=True)
        return ("Private Header" in r.stdout,
                "python -O decodes a 60-byte prefix: " + r.stdout[:60].replace("\n", " "))


def d2():
    j = decode(pb.pel([pb.lp(targets=(0x11, 0x22, 0x33))]))
    ip = j["Impacted Partition"]
    txt = json.dumps(ip)
    return (not ("0x0011" in txt and "0x0022" in txt and "0x0033" in txt),
            "3 target LPs encoded, shown: " + txt[-80:])


def d3():
    j = decode(pb.pel([pb.eh(mtm=b"9105\0\0\0\0")]))
    v = j["Extended User Header"]["Reporting Machine Type"]
    return ("\0" in v, "Reporting Machine Type = %r" % v)


def d4():
    # second callout's location code begins with 'PE..' bytes right after a
    # complete first callout: an unbounded substructure walk misreads it.
    c1 = pb.callout(loc=b"U78DA.ND1-P0\0\0\0\0", subs=(pb.fru(),))
    c2 = bytes([0x50, 0x45, 0x4D, 0]) + b""  # size=0x50 flags=0x45 prio 'M' loclen 0
    c2 = bytes([4 + 12, 0x45, 0x4D, 0]) + pb.fru()  # size 16, flags 0x45 ('E')... no: starts 0x10
    # build a callout whose first two bytes are 0x50 0x45: size 0x50 = 80 bytes
    loc = b"L" * 64
    body = pb.fru()  # 12 bytes
    c2 = bytes([4 + 64 + 12, 0x45, 0x4D, 64]) + loc + body
    assert c2[0] == 0x50 and c2[1] == 0x45
    sec = pb.callout_section([c1, c2])
    try:
        j = decode(pb.pel([pb.src(callouts=sec)]))
        n = j["Primary SRC"]["Callout Section"]["Callout Count"]
        return (n != 2, "Callout Count = %r (expected 2)" % n)
    except Exception as e:
        return (True, "decode failed: %r" % e)


def d5():
    from pel.peltool.peltool import prettyPrint
    doc = {"a\":b": 1, "t": ["x\": y"]}
    txt = prettyPrint(json.dumps(doc, indent=4))
    try:
        back = json.loads(txt)
    except Exception as e:
        return (True, "pretty-printed text is not JSON: %s" % e)
    return (back != doc, "round trip %r" % (back,))


def d6():
    from pel.peltool.peltool import considerPELIfSeverityMatches
    from pel.peltool.config import Config

    class U:
        eventSeverity = 0x05
    c = Config()
    c.severities = [5]
    crit = considerPELIfSeverityMatches(U, c)
    c.severities = [0]
    info = considerPELIfSeverityMatches(U, c)
    return (crit or not info, "sev 0x05: Critical=%s Informational=%s" % (crit, info))


def d7():
    with tempfile.TemporaryDirectory() as t:
        open(os.path.join(t, "a.pel"), "wb").write(pb.pel([pb.src()]))
        # PCE identity with a too-small size byte inside a callout
        bad_pce = b"PE" + bytes([4, 0]) + b"M" * 8 + b"S" * 12
        c = pb.callout(loc=b"", subs=(pb.fru(), bad_pce))
        pad = (-len(c)) % 4
        sec = bytes([0xC0, 0]) + (4 + len(c) + pad).to_bytes(2, "big") + c + b"\0" * pad
        open(os.path.join(t, "b.pel"), "wb").write(
            pb.pel([pb.src(callouts=sec)], eid=0x50000002, plid=0x50000002))
        r = run(["-p", t, "-l", "-E"])
        try:
            json.loads(r.stdout)
            bad1 = False
        except Exception:
            bad1 = True
        r2 = run(["-p", t, "-j", "-o", t, "-O", "-H"])  # everything filtered out
        bad2 = "No PEL parsed" in r2.stdout
        return (bad1 or bad2, "list stdout json-broken=%s; -j filtered diagnostic on stdout=%s" % (bad1, bad2))


def d8():
    with tempfile.TemporaryDirectory() as t:
        open(os.path.join(t, "a.pel"), "wb").write(
            pb.pel([pb.src()], plid=0x00000001, eid=0x50000001))
        r = run(["-p", t, "--plid", "00000001"])
        return ("50000001" not in r.stdout.upper() and "0x" not in r.stdout,
                "--plid 00000001 output: " + r.stdout.strip().replace("\n", " ")[:70])


def d9():
    with tempfile.TemporaryDirectory() as t:
        p = os.path.join(t, "t.pel")
        open(p, "wb").write(pb.pel([pb.src()])[:70])
        run(["-f", p, "-E", "--clean"])
        gone_f = not os.path.exists(p)
        return (gone_f, "-f trunc --clean: file deleted=%s" % gone_f)


def d10():
    from pel.peltool import src as S
    from pel.peltool.config import Config
    c1 = pb.callout(loc=b"", subs=(pb.fru(flags=0x42, pn=b"BMC0001\0"),))
    bad = pb.callout(loc=b"", subs=(pb.fru(flags=0x42, pn=b"BMC0001\0"),))
    good = pb.pel([pb.src(callouts=pb.callout_section([c1]))])
    a = decode(good)
    # a failing procedure look-up: make getMaintProcDesc raise once
    import calloutparsers.ocallouts.ocallouts as oc
    orig = oc.getMaintProcDesc

    def boom(p):
        raise RuntimeError("x")
    oc.getMaintProcDesc = boom
    try:
        decode(good)
    finally:
        oc.getMaintProcDesc = orig
    b = decode(good)
    return (a != b, "same PEL decoded before/after a failing look-up differs: %s" % (a != b))


ALL = dict(D1=d1, D2=d2, D3=d3, D4=d4, D5=d5, D6=d6, D7=d7, D8=d8, D9=d9, D10=d10)

if __name__ == "__main__":
    which = sys.argv[2:] or list(ALL)
    for k in which:
        try:
            with contextlib.redirect_stdout(io.StringIO()):
                hit, msg = ALL[k]()
        except Exception as e:  # reproduction itself broke
            hit, msg = None, "repro error: %r" % e
        print(k, "MANIFESTS" if hit else ("absent" if hit is False else "ERROR"), "-", msg)
