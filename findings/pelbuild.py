"""Tiny PEL builder used only by the hand reproductions under /verif/findings
(documentation for the reader; no check command imports or runs this)."""
import struct


def hdr(sid: bytes, length: int, ver=1, sub=0, comp=0x2000) -> bytes:
    return sid + struct.pack(">HBBH", length, ver, sub, comp)


def bcd_ts(y=0x2024, mo=0x03, d=0x08, h=0x18, mi=0x40, s=0x27, hs=0x00) -> bytes:
    return struct.pack(">HBBBBBB", y, mo, d, h, mi, s, hs)


def ph(nsec: int, creator=b"O", obmc=1, cver=0, plid=0x50000001, eid=0x50000001,
       comp=0x2000) -> bytes:
    body = bcd_ts() + bcd_ts(s=0x28) + creator + b"\0\0" + bytes([nsec]) + \
        struct.pack(">IQII", obmc, cver, plid, eid)
    assert len(body) == 40
    return hdr(b"PH", 48, comp=comp) + body


def uh(subsys=0x8D, scope=0x03, sev=0x40, etype=0x00, aflags=0xA000,
       states=0x0000, comp=0x2000) -> bytes:
    body = bytes([subsys, scope, sev, etype]) + b"\0\0\0\0" + bytes([0, 0]) + \
        struct.pack(">HI", aflags, states)
    assert len(body) == 16
    return hdr(b"UH", 24, comp=comp) + body


def src_body(words=None, ascii_=b"BD8D1234", flags=0, wordcount=9, callouts=b""):
    words = words or [0x02000055, 0, 0, 0, 0, 0, 0, 0]
    a = ascii_.ljust(32, b" ")
    b = bytes([2, flags | (1 if callouts else 0), 0, wordcount]) + \
        struct.pack(">HH", 0, 72 + len(callouts))
    for w in words:
        b += struct.pack(">I", w)
    return b + a + callouts


def src(sid=b"PS", **kw) -> bytes:
    body = src_body(**kw)
    return hdr(sid, 8 + len(body)) + body


def fru(flags=0x18, pn=b"PN12345\0", ccin=b"", sn=b""):
    body = b""
    if flags & 0x0A:
        body += pn.ljust(8, b"\0")[:8]
    if flags & 0x04:
        body += ccin.ljust(4, b"\0")[:4]
    if flags & 0x01:
        body += sn.ljust(12, b"\0")[:12]
    return b"ID" + bytes([4 + len(body), flags]) + body


def pce(name=b"", mtm=b"9105-22A", sn=b"SN0000000001"):
    n = name
    return b"PE" + bytes([4 + 8 + 12 + len(n), 0]) + mtm.ljust(8, b"\0") + \
        sn.ljust(12, b"\0") + n


def mru(ids):
    b = b"MR" + bytes([8 + 8 * len(ids), len(ids)]) + b"\0\0\0\0"
    for prio, i in ids:
        b += struct.pack(">II", prio, i)
    return b


def callout(loc=b"U78DA.ND1-P0\0\0\0\0", prio=0x48, subs=(), flags=0):
    body = b"".join(subs)
    size = 4 + len(loc) + len(body)
    return bytes([size, flags, prio, len(loc)]) + loc + body


def callout_section(callouts):
    body = b"".join(callouts)
    total = 4 + len(body)
    assert total % 4 == 0, total
    return bytes([0xC0, 0]) + struct.pack(">H", total // 4) + body


def ud(payload: bytes, sub=1, ver=1, comp=0x2000, sid=b"UD") -> bytes:
    return hdr(sid, 8 + len(payload), ver=ver, sub=sub, comp=comp) + payload


def lp(primary=1, name=b"lpar1\0\0\0", targets=(0x11,), logid=7):
    body = struct.pack(">HBBI", primary, len(name), len(targets), logid) + name
    for t in targets:
        body += struct.pack(">H", t)
    if len(targets) % 2:
        body += b"\0\0"
    return hdr(b"LP", 8 + len(body)) + body


def eh(mtm=b"9105-22A", sn=b"SN0000000001", fw=b"fw1020.00-1", sub=b"sub-1",
       symptom=b"BD8D1234_00000000\0\0\0"):
    body = mtm.ljust(8, b"\0") + sn.ljust(12, b"\0") + fw.ljust(16, b"\0") + \
        sub.ljust(16, b"\0") + b"\0\0\0\0" + bcd_ts() + b"\0\0\0" + \
        bytes([len(symptom)]) + symptom
    return hdr(b"EH", 8 + len(body)) + body


def mt(mtm=b"9105-22A", sn=b"SN0000000001"):
    return hdr(b"MT", 28) + mtm.ljust(8, b"\0") + sn.ljust(12, b"\0")


def pel(sections, **phkw) -> bytes:
    uhkw = {k[3:]: phkw.pop(k) for k in list(phkw) if k.startswith("uh_")}
    return ph(2 + len(sections), **phkw) + uh(**uhkw) + b"".join(sections)
