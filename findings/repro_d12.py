"""D12: a parser module whose *use* raises ImportError is cached as missing (C19)."""
import sys, os, json, tempfile
ROOT = sys.argv[1] if len(sys.argv) > 1 else "/repo"
sys.path.insert(0, os.path.join(ROOT, "modules"))
sys.path.insert(0, os.path.dirname(os.path.abspath(__file__)))
import pelbuild as pb
t = tempfile.mkdtemp()
os.makedirs(os.path.join(t, "oabcd"))
open(os.path.join(t, "oabcd", "__init__.py"), "w").close()
open(os.path.join(t, "oabcd", "oabcd.py"), "w").write(
    "import json\n"
    "def parseUDToJson(subtype, version, data):\n"
    "    if subtype == 7:\n"
    "        import some_optional_dependency_not_installed\n"
    "    return json.dumps({'ok': bytes(data).hex()})\n")
import udparsers
udparsers.__path__.append(t)
from pel.datastream import DataStream
from pel.peltool.peltool import parsePEL
from pel.peltool.config import Config
def dec(data):
    c = Config(); c.every_pel = True
    return parsePEL(DataStream(data, byte_order="big", is_signed=False), c, False)[1]
good = pb.pel([pb.ud(b"abcd", sub=1, comp=0xABCD)])
bad = pb.pel([pb.ud(b"abcd", sub=7, comp=0xABCD)])
a = dec(good); dec(bad); b = dec(good)
print("D12", "MANIFESTS" if a != b else "absent", "- same PEL before/after a section whose parser raised ImportError differs:", a != b)
